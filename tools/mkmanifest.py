"""Regenerate /verif/MANIFEST.json.  Edit BUILT / the texts here, then run
`/venv/bin/python tools/mkmanifest.py && python3-vt tools/validate.py`."""

import json

PY = "/venv/bin/python"

NA = {
    "C01": "pure function of (arguments, hyper-parameters) of one call: no schedule, clock, fault, library-owned random draw or state that outlives the call, so deterministic simulation has nothing to drive (dropout's RNG is pinned by one manual_seed, not explored)",
    "C02": "pure: gradients are torch gradients times per-input scalars recomputed from shapes on every call; 'repeated calls' hide no state",
    "C03": "arithmetic identity on shapes; pure function of one call",
    "C04": "expectation of a pure function over a fixed input law (quadrature / fixed-seed Monte-Carlo is not a schedule or fault); no history",
    "C05": "pure in (constraint name, shapes)",
    "C06": "pure algebra in (tau, x, f)",
    "C07": "pure rational recurrence in (index, layers, mult, ratio)",
    "C08": "pure in (constructor options, input); `training` is an explicit flag, no hidden history; initialisation randomness only enters a statistical clause",
    "C10": "pure in (shape, tag, depth, lr); its interaction with copy/pickle histories is exercised by C09's optimizer invariant and its grouping/aliasing by C11",
    "C12": "a single deterministic optimizer step from a fixed state: pure in (shape, inputs, lr)",
    "C13": "pure in (format, x): nearest rounding makes no draw and keeps no state (C14's exact format model covers the value set incidentally)",
    "C19": "pure function of an FX graph; nothing in the pruning depends on how or when the graph was produced",
}

CHECKS = {
    "C09": dict(
        module="checks.c09",
        engine="sim_param",
        text="Seeded search over operation histories (copy / pickle / torch.save / dtype / state-dict / requires_grad / transform) with write faults (ENOSPC on the k-th write), torn reads and restarts at the serialisation seam, checked after every operation against a reference model of tags, values, trainability and optimizer acceptance. Exploration: a clean batch is evidence, not proof; the histories the suite never tries (copy of a copy, copy then pickle, nested transforms, restart) are reached thousands of times per quick run.",
        note="Trusts copy/pickle/torch.save of the installed CPython/torch as real components; file objects and (in quick) the restart are in-process stubs; bit flips are not injected (pickle has no integrity); the lr scale of the original is taken from the library (C10 not re-derived).",
        technique="deterministic simulation: seeded operation/fault histories over a live-handle world, serialisation-seam fault injection (ENOSPC, torn stream, restart), reference-model invariants after every step, delta-debugged replay files",
        ref="DESIGN.md §3 C09",
    ),
    "C11": dict(
        module="checks.c11",
        engine="sim_optim",
        text="Seeded histories of build / optimizer step / scheduler step / in-place lr mutation / caller mutation / rejected builds on live param-group dicts and aliasable lr tensors, checked after every operation against a conservation + aliasing + decay model. Exploration level.",
        note="torch.optim and torch lr_scheduler run as real components; the lr factor the library assigns to each parameter is taken as given (C10); zero gradients only, as the property states.",
        technique="deterministic simulation: seeded operation/interference histories (steps, schedulers, in-place mutations, rejected builds) with a reference model of groups, aliasing and decay; shrinking + replay",
        ref="DESIGN.md §3 C11",
    ),
    "C14": dict(
        module="checks.c14",
        engine="sim_sr",
        text="The library's random draw is put behind a seam the simulator owns: torch.randint is replaced by an enumerator so that one quantise call evaluates every input under every possible draw, turning the probability statement into an exact count compared with an exact rational model of the format; a seam monitor checks the request (range, shape, dtype, count) and a keyed per-element draw checks independence (contiguous, transposed, rank-3, expanded and requires-grad inputs) and that quantise_fwd's value and quantise_bwd's gradient are the same rounding under the same draws, for up to three format objects sharing (E, M) in one process, and that a quantise() output overwritten in place is rounded again like a fresh tensor. Exploration over (format, srbits, input class); the draw space itself is enumerated exhaustively per input when 2^srbits <= 2^20 and sampled otherwise.",
        note="Trusts torch integer/bit ops and float32 arithmetic; the format model is independent exact rational arithmetic; float32 inputs only (other dtypes are C13's territory).",
        technique="deterministic simulation of the random source: exhaustive enumeration of the library's draw at the torch.randint seam, request-log monitor, exact rational reference model",
        ref="DESIGN.md §3 C14",
    ),
    "C15": dict(
        module="checks.c15",
        engine="sim_quant",
        text="Generated programs are transformed with simulate_format/simulate_fp8 and driven through short histories (repeated calls, calls with frozen parameter subsets, Dynamo resets, failing calls, neighbouring transformed modules) in a fresh simulated process per run; the random source is a logged order-independent PRF so the value set, rounding mode and random-bit count of the inserted quantisers are observed at the seam; outputs and all gradients are compared bitwise with a hand-quantised reference interpreter, and the transformed module must tie exactly the parameters the original ties. Exploration level.",
        note="TorchDynamo/AOT run as real opaque components; the reference interpreter uses the library's FPFormat.quantise as the quantiser (its value set is C13/C14's business) but its own straight-through wrappers, operand selection and gradient placement; recorded findings D7 (torch.nn root module) and D9 (lossless gradients equal to rounding only) are probed deterministically and printed as KNOWN-FINDING.",
        technique="deterministic simulation: fork-per-run worlds, PRF random seam with request log, seeded call/reset/fault histories, differential reference interpreter",
        ref="DESIGN.md §3 C15",
    ),
    "C16": dict(
        module="checks.c16",
        engine="sim_unitscale",
        text="1-3 generated programs share one simulated process; unit_scale / call / failing call / reset operations on them are interleaved by a seeded scheduler (the rewrite depends on process-global Dynamo state), and every successful call is compared bitwise on outputs and all gradients with a User-Guide recipe interpreter of the same program; re-initialisation and the parameter-sharing structure of the returned copy are checked after every unit_scale. Exploration level.",
        note="TorchDynamo runs as a real opaque component; the recipe interpreter uses the library's U.* functions as building blocks (their scale factors are C01-C05's business); generated programs keep the recipe unambiguous (see DESIGN.md §3 C16); recorded findings D4 (replace key leaks process-wide) and D10 (nn.Softmax) are probed deterministically.",
        technique="deterministic simulation: seeded interleaving of transform/call/fault operations over modules sharing process-global state, reference recipe interpreter",
        ref="DESIGN.md §3 C16",
    ),
    "C17": dict(
        module="checks.c17",
        engine="sim_transforms",
        text="A fresh simulated process per run holds a base module and a growing set of derived modules; seeded histories of derive (any chain order) / call / call-original / sync / perturb / drop with injected failing calls, Dynamo resets and first-call interruptions are checked after every operation for: original untouched, no shared storage, repeatability, order independence, agreement with hand-written twins, a derived module carrying the state and the parameter-sharing structure of the module it was derived from, and recovery after faults. Exploration level.",
        note="TorchDynamo/AOT/Inductor run as real opaque components whose internal scheduling is not controlled; the simulator controls the operations issued to them, their knobs and resets; exceptions are injected only where a synchronous exception can occur (not at inert lines, not inside finally/except bodies, not at the re-visit of a with header); recorded finding D16 (recompile-limit fallback with more than 8 live modules) is probed deterministically.",
        technique="deterministic simulation: fork-per-run worlds, seeded transform/call histories with exception injection at first-call sites (sys.settrace), Dynamo reset and failing-call faults, reference twins, shrinking + replay",
        ref="DESIGN.md §3 C17",
    ),
    "C18": dict(
        module="checks.c18",
        engine="sim_track",
        text="Run histories (forward-only / backward from subsets of outputs, repeated, with resets, changing batch sizes, float32 or float64 modules, with other programs tracked or analysed earlier in the same process) of one tracked module are simulated and after every run outputs/gradients are compared bitwise with the untracked module and the recorded metrics with statistics recomputed from independently captured tensors; stale backward metrics across runs are the history-dependent part. Exploration level.",
        note="Values and gradients are observed in the run under test through a wrapper around the tracking backend object found in tracked.backends (instance-level run_node + tensor hooks; installed by the harness, not in /repo); analyse_module is compared with an independent second interpreter; float32 reductions compared at 1e-5 relative, printed 3-digit numbers at 6e-3; rounding-level differences between tracked and untracked results (at most 1e-5 of the largest value, or within 8x the measured effect of one-ulp perturbations of every intermediate for programs that amplify rounding noise) are the recorded finding D13.",
        technique="deterministic simulation: seeded run histories over mutable metrics state, independent capture oracle",
        ref="DESIGN.md §3 C18",
    ),
    "C20": dict(
        module="checks.c20",
        engine="sim_compile",
        text="A compiled callable is a guarded cache with history-dependent behaviour; per run one scaled function/module/composition is compiled under randomised knobs and driven through a seeded call history (shape, dtype, grad-mode changes, resets, failing calls, recompile-limit exhaustion) and every successful call is compared with eager execution on cloned inputs. Exploration level.",
        note="Dynamo/AOT/Inductor are real opaque components; tolerances are dtype rounding relative to max|.| (float32-level for float64 callables containing rms_norm, which computes in float32); dropout only with p=0/eval; recorded findings D12 (dynamic=True), D14 (float guard on the symbolic scale) and D15 (Inductor, aliased outputs) are probed by fixed plans, one of which compiles with Inductor in the quick tier.",
        technique="deterministic simulation: seeded call histories + knob randomisation (buggify) + cache-loss faults over torch.compile, eager reference",
        ref="DESIGN.md §3 C20",
    ),
}

# properties whose check is built and registered
BUILT = ["C09", "C11", "C14", "C15", "C16", "C17", "C18", "C20"]


def main() -> None:
    checks = []
    na = [{"property_id": k, "reason": v} for k, v in NA.items()]
    for pid, c in CHECKS.items():
        if pid not in BUILT:
            na.append({"property_id": pid,
                       "reason": "simulation target (see DESIGN.md §3), but its check is not built yet in this revision; no claim is made until it is"})
            continue
        checks.append({
            "property_id": pid,
            "quick_cmd": f"{PY} -m {c['module']} --tier quick",
            "thorough_cmd": f"{PY} -m {c['module']} --tier thorough",
            "evidence_file": f"/verif/evidence/{pid}.json",
            "replay_cmd_template": f"{PY} -m simkit.replay {{path}}",
            "engine": c["engine"],
            "level_claimed": {"category": "exploration", "text": c["text"], "design_ref": c["ref"]},
            "level_note": c["note"],
            "technique": c["technique"],
        })
    na.sort(key=lambda d: d["property_id"])
    engines = {}
    for pid in BUILT:
        e = CHECKS[pid]["engine"]
        engines.setdefault(e, []).append(pid)
    m = {
        "version": 1,
        "setup_cmd": "./setup.sh",
        "hooks": {
            "guard": "UNIT_SCALING_VERIF",
            "enable": "not used: every seam the properties depend on (torch.randint, file objects, torch._dynamo entry points, sys.settrace) is reachable from the harness, so /repo carries no hook code; checks import unit_scaling from /repo's working tree ($VERIF_REPO overrides)",
            "baseline_off_cmd": "cd /repo && /venv/bin/python -m pytest -ra -q -p no:cacheprovider --timeout=900 --continue-on-collection-errors",
            "source_commits": [],
            "add_only": True,
        },
        "engines": [
            {"name": e, "path": f"/verif/engines/{e}.py", "serves_properties": ps,
             "kind_free_text": "deterministic simulation engine (seeded plans, fault injection, reference-model invariants) driven by /verif/simkit"}
            for e, ps in engines.items()
        ],
        "checks": checks,
        "not_applicable": na,
        "notes": "Family: deterministic simulation with fault injection. Exit codes: 0 held (KNOWN-FINDING lines allowed), 1 VIOLATION, 2 harness error/nondeterminism/timeout. VERIF_SEED selects the root seed; VERIF_REPO the tree under test. See DESIGN.md.",
    }
    with open("/verif/MANIFEST.json", "w") as f:
        json.dump(m, f, indent=1)
    print("wrote MANIFEST.json:", [c["property_id"] for c in checks])


if __name__ == "__main__":
    main()
