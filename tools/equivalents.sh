#!/bin/bash
# behaviour-preserving refactorings must stay silent: every mutants/equivalent/<PROP>_*.patch is
# applied to a scratch copy and the property's quick check must exit 0 without a VIOLATION line
scratch=$(mktemp -d /var/tmp/verif-eq-XXXXXX); trap 'rm -rf "$scratch"' EXIT
bad=0
for p in /verif/mutants/equivalent/*.patch; do
  prop=$(basename $p | cut -d_ -f1); lower=$(echo $prop | tr 'A-Z' 'a-z')
  rm -rf "$scratch/repo"; mkdir -p "$scratch/repo"; (cd /repo && git archive HEAD) | tar -x -C "$scratch/repo"
  cp /repo/unit_scaling/_version.py "$scratch/repo/unit_scaling/_version.py"
  (cd "$scratch/repo" && patch -p1 -s < "$p") || { echo "EQUIV $(basename $p): patch does not apply"; bad=$((bad+1)); continue; }
  out=$(cd /verif && VERIF_REPO="$scratch/repo" timeout 1800 /venv/bin/python -m checks.$lower --tier quick --no-evidence 2>&1); rc=$?
  if [ $rc -eq 0 ] && ! echo "$out" | grep -q "^VIOLATION"; then echo "EQUIV $(basename $p): silent (ok)"; else echo "EQUIV $(basename $p): ALARM rc=$rc"; echo "$out" | grep -E "^violation|detail|VIOLATION|HARNESS" | head -5; bad=$((bad+1)); fi
done
echo "equivalents: alarms=$bad"; [ $bad -eq 0 ]
