"""Determinism self-test: the same VERIF_SEED must give the same event-log digest for every
run, in a fresh interpreter, under another PYTHONHASHSEED and another worker count.

    /venv/bin/python tools/selftest_determinism.py [C09 C11 ...] [--scale 0.2] [--seeds 0,7]

For each property the quick check is executed twice per root seed:
    A: VERIF_HASHSEED=0      VERIF_NPROC=<all cores>
    B: VERIF_HASHSEED=12345  VERIF_NPROC=5
and the {run seed: digest} maps are diffed on the runs both executed.  Writes
/verif/selftest/determinism.json.  Exit 0 iff no digest differs (and the overlap is not empty).
"""

from __future__ import annotations

import json
import os
import subprocess
import sys
import tempfile
import time

CHECKS = {"C09": "checks.c09", "C11": "checks.c11", "C14": "checks.c14", "C15": "checks.c15",
          "C16": "checks.c16", "C17": "checks.c17", "C18": "checks.c18", "C20": "checks.c20"}


def run(mod: str, seed: int, scale: float, hashseed: str, nproc: str, out: str) -> int:
    env = dict(os.environ, VERIF_SEED=str(seed), VERIF_HASHSEED=hashseed, VERIF_NPROC=nproc)
    env.pop("PYTHONHASHSEED", None)
    p = subprocess.run(["/venv/bin/python", "-m", mod, "--tier", "quick", "--runs-scale", str(scale),
                        "--no-evidence", "--digests-out", out], cwd="/verif", env=env,
                       stdout=subprocess.PIPE, stderr=subprocess.DEVNULL, text=True, timeout=3600)
    return p.returncode


def main() -> int:
    args = [a for a in sys.argv[1:] if not a.startswith("--")]
    scale = 0.25
    seeds = [0, 7]
    for i, a in enumerate(sys.argv):
        if a == "--scale":
            scale = float(sys.argv[i + 1])
        if a == "--seeds":
            seeds = [int(x) for x in sys.argv[i + 1].split(",")]
    args = [a for a in args if a in CHECKS]
    props = args or list(CHECKS)
    report = {"scale": scale, "root_seeds": seeds, "results": {}}
    bad = 0
    tmp = tempfile.mkdtemp(prefix="verif-det-", dir="/var/tmp")
    for p in props:
        for s in seeds:
            t0 = time.time()
            a, b = os.path.join(tmp, f"{p}-{s}-a.json"), os.path.join(tmp, f"{p}-{s}-b.json")
            ra = run(CHECKS[p], s, scale, "0", str(os.cpu_count() or 16), a)
            rb = run(CHECKS[p], s, scale, "12345", "5", b)
            da, db = json.load(open(a)), json.load(open(b))
            common = sorted(set(da) & set(db))
            diff = [k for k in common if da[k] != db[k]]
            ok = ra == rb and not diff and len(common) > 0
            bad += 0 if ok else 1
            report["results"][f"{p}/seed{s}"] = {"runs_a": len(da), "runs_b": len(db), "compared": len(common),
                                                 "differing": len(diff), "exit_a": ra, "exit_b": rb,
                                                 "first_differing_run_seeds": diff[:5], "wall_s": round(time.time() - t0, 1)}
            print(f"{p} seed={s}: compared {len(common)} runs, differing {len(diff)}, exits {ra}/{rb} "
                  f"({time.time() - t0:.0f}s) {'OK' if ok else 'FAIL'}", flush=True)
    os.makedirs("/verif/selftest", exist_ok=True)
    with open("/verif/selftest/determinism.json", "w") as f:
        json.dump(report, f, indent=1, sort_keys=True)
    import shutil

    shutil.rmtree(tmp, ignore_errors=True)
    return 0 if bad == 0 else 1


if __name__ == "__main__":
    sys.exit(main())
