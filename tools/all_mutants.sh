#!/bin/bash
# run every hand-written mutant and every seeded change against the quick checks
for p in C09 C11 C14 C15 C16 C17 C18 C20; do
  /verif/tools/mutants.sh $p 2>&1 | grep -E "^MUTANT|^mutants"
  for d in /verif/seeded/${p}_*; do
    [ -d "$d" ] && /verif/tools/mutants.sh $p $d/patch.diff 2>&1 | grep -E "^MUTANT" | sed "s|patch.diff|seeded/$(basename $d)|"
  done
done
