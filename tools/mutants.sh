#!/bin/bash
# tools/mutants.sh <property> [patch ...]  -- sensitivity self-test.
# Applies each /verif/mutants/<property>/*.patch (or the given ones) to a scratch copy of
# /repo (outside /repo and /verif, removed afterwards) and runs the property's quick check
# with VERIF_REPO pointing at the copy.  A mutant is "caught" iff the check exits 1 with a
# VIOLATION line.  Evidence files are not rewritten (--no-evidence).
prop="$1"; shift
lower=$(echo "$prop" | tr 'A-Z' 'a-z')
patches=("$@")
[ ${#patches[@]} -eq 0 ] && patches=(/verif/mutants/$prop/*.patch)
scratch=$(mktemp -d /var/tmp/verif-mut-XXXXXX)
trap 'rm -rf "$scratch"' EXIT
caught=0; missed=0
for p in "${patches[@]}"; do p=$(readlink -f "$p")
  rm -rf "$scratch/repo"; mkdir -p "$scratch/repo"
  (cd /repo && git archive HEAD) | tar -x -C "$scratch/repo"
  cp /repo/unit_scaling/_version.py "$scratch/repo/unit_scaling/_version.py" 2>/dev/null
  if ! (cd "$scratch/repo" && patch -p1 -s < "$p"); then echo "MUTANT $(basename $p): patch does not apply"; missed=$((missed+1)); continue; fi
  out=$(cd /verif && VERIF_REPO="$scratch/repo" VERIF_RUNS_SCALE="${MUT_SCALE:-1}" timeout 1800 /venv/bin/python -m checks.$lower --tier quick --no-evidence 2>&1)
  rc=$?
  if [ $rc -eq 1 ] && echo "$out" | grep -q "^VIOLATION property=$prop"; then
    echo "MUTANT $(basename $p): caught  [$(echo "$out" | grep -m1 '^violation class')]"; caught=$((caught+1))
  else
    echo "MUTANT $(basename $p): MISSED rc=$rc"; echo "$out" | tail -5 | sed 's/^/    /'; missed=$((missed+1))
  fi
done
echo "mutants $prop: caught=$caught missed=$missed"
[ $missed -eq 0 ]
