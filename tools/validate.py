"""python3-vt tools/validate.py -- validate MANIFEST.json and every evidence file."""
import glob, json, sys
import jsonschema

ok = True
m = json.load(open("/verif/MANIFEST.json"))
jsonschema.validate(m, json.load(open("/root/.vp/MANIFEST.schema.json")))
props = [json.loads(l)["id"] for l in open("/verif/properties.jsonl")]
claimed = [c["property_id"] for c in m["checks"]]
na = [n["property_id"] for n in m.get("not_applicable", [])]
assert sorted(claimed + na) == sorted(props), (sorted(claimed + na), props)
print("manifest ok: claimed", claimed, "n/a", na)
es = json.load(open("/root/.vp/EVIDENCE.schema.json"))
for p in sorted(glob.glob("/verif/evidence/*.json")):
    try:
        jsonschema.validate(json.load(open(p)), es)
        print("evidence ok:", p)
    except Exception as e:
        ok = False
        print("evidence INVALID:", p, str(e)[:300])
sys.exit(0 if ok else 1)
