#!/bin/bash
# tools/seeded_verify.sh <PROP> <worktree> <name> : confirm a sub-agent's seeded change myself and
# store it under /verif/seeded/<name>/ (patch.diff, demo_break.py); prints a summary for meta.json.
prop="$1"; wt="$2"; name="$3"
d=/verif/seeded/$name; mkdir -p "$d"
git -C "$wt" diff -- unit_scaling > "$d/patch.diff"
cp "$wt/demo_break.py" "$d/demo_break.py"
echo "== patch"; cat "$d/patch.diff"
echo "== demo with change"; (cd "$wt" && timeout 900 /venv/bin/python demo_break.py > /tmp/demo_with.log 2>&1; echo "exit=$?"; tail -3 /tmp/demo_with.log)
echo "== tests with change"; (cd "$wt" && timeout 3000 /venv/bin/python -m pytest -q -p no:cacheprovider unit_scaling/tests --deselect unit_scaling/tests/test_analysis.py 2>&1 | tail -2)
echo "== demo without change"; (cd "$wt" && git stash -q -- unit_scaling && timeout 900 /venv/bin/python demo_break.py > /tmp/demo_without.log 2>&1; echo "exit=$?"; tail -2 /tmp/demo_without.log; git stash pop -q)
echo "== my quick check against the change"; /verif/tools/mutants.sh "$prop" "$d/patch.diff" 2>&1 | grep -E "^MUTANT|^    " | head -8
