"""simkit.runner -- seeded search over plans, confirmation, shrinking, replay files,
known-finding classification and evidence.

Engine protocol (a module):
    PROPERTY, NAME, COMPONENTS = {"real": [...], "stub": [...]}, ASSUMPTIONS, RULE
    phases(tier) -> [ {name, runs, heavy, batch, timeout} ]
    generate(seed, tier, phase) -> plan   (JSON-able; plan["ops"] is a list)
    execute(plan) -> result dict (see `empty_result`)
    simplify(plan) -> iterable of simpler plans            (optional)
    neutralise(plan, finding) -> plan or None               (optional, counterfactual)
"""

from __future__ import annotations

import argparse
import copy
import hashlib
import importlib
import json
import os
import sys
import time
from typing import Any, Dict, Iterable, List, Optional, Tuple

from . import core

EXIT_OK, EXIT_VIOLATION, EXIT_HARNESS = 0, 1, 2


def empty_result() -> Dict[str, Any]:
    return {
        "violation": None,
        "digest": "",
        "steps": 0,
        "opseq": [],
        "states": [],
        "faults": {},
        "probes": {},
        "notes": [],
    }


# ------------------------------------------------------------------------------------
# executing plans in children


def _exec_one(args: Tuple[str, Dict[str, Any]]) -> Dict[str, Any]:
    engine_name, plan = args
    engine = importlib.import_module(engine_name)
    return engine.execute(plan)


def _exec_batch(args: Tuple[str, str, str, List[int]]) -> List[Dict[str, Any]]:
    """A batch child of a light engine.  Every plan still gets a process of its own (forked
    from this child, one at a time): library-level caches or registries mutated by one plan
    must not leak into the next one, or a failure would depend on the batch composition and
    would not replay."""
    engine_name, tier, phase, seeds = args
    out: List[Dict[str, Any]] = []
    items = [(engine_name, tier, phase, s) for s in seeds]
    for _, item, status, value in core.fork_map(_gen_exec, items, 1, 600.0, None, False):
        if status != "ok":
            raise RuntimeError(f"plan seed={item[3]} {status}: {value}")
        if not value.get("violation"):
            value["plan"] = None
            if out:
                value["sample"] = None
        out.append(value)
    return out


def _gen_exec(args: Tuple[str, str, str, int]) -> Dict[str, Any]:
    engine_name, tier, phase, seed = args
    engine = importlib.import_module(engine_name)
    plan = engine.generate(seed, tier, phase)
    r = engine.execute(plan)
    r["seed"] = seed
    r["plan"] = plan if r["violation"] else None
    r["sample"] = plan
    return r


def _exec_explicit(args: Tuple[str, int, Dict[str, Any]]) -> Dict[str, Any]:
    engine_name, idx, plan = args
    engine = importlib.import_module(engine_name)
    r = engine.execute(plan)
    r["seed"] = idx
    r["plan"] = plan if r["violation"] else None
    r["sample"] = plan
    return r


def exec_plans(engine_name: str, plans: List[Dict[str, Any]], timeout: float) -> List[Any]:
    """Execute each plan in its own fresh child; returns result dicts or
    {"harness": status, "value": ...} in plan order."""
    res: List[Any] = [None] * len(plans)
    for idx, _, status, value in core.fork_map(
        _exec_one, [(engine_name, p) for p in plans], core.ncpu(), timeout
    ):
        res[idx] = value if status == "ok" else {"harness": status, "value": value}
    return res


# ------------------------------------------------------------------------------------
# shrinking


def _ddmin_candidates(plan: Dict[str, Any]) -> Iterable[Dict[str, Any]]:
    ops = plan.get("ops", [])
    n = len(ops)
    size = n // 2
    seen = set()
    while size >= 1:
        for start in range(0, n, size):
            keep = ops[:start] + ops[start + size :]
            key = json.dumps(keep, sort_keys=True)
            if len(keep) < n and key not in seen:
                seen.add(key)
                c = copy.deepcopy(plan)
                c["ops"] = copy.deepcopy(keep)
                yield c
        size //= 2


def shrink(
    engine: Any, plan: Dict[str, Any], target: Tuple[str, str], timeout: float, budget: int
) -> Tuple[Dict[str, Any], int]:
    cur = plan
    used = 0
    nproc = core.ncpu()
    improved = True
    while improved and used < budget:
        improved = False
        cands = list(_ddmin_candidates(cur))
        if hasattr(engine, "simplify"):
            cands += list(engine.simplify(cur))
        for i in range(0, len(cands), nproc):
            chunk = cands[i : i + nproc]
            if used >= budget:
                break
            results = exec_plans(engine.__name__, chunk, timeout)
            used += len(chunk)
            for c, r in zip(chunk, results):
                if isinstance(r, dict) and "harness" not in r and core.vclass(
                    r.get("violation")
                ) == target:
                    cur = c
                    improved = True
                    break
            if improved:
                break
    return cur, used


# ------------------------------------------------------------------------------------
# known findings


def load_known() -> Dict[str, Any]:
    path = os.path.join(core.VERIF, "known_findings.json")
    if not os.path.exists(path):
        return {"findings": [], "fixed": []}
    with open(path) as f:
        return json.load(f)


def match_known(
    engine: Any, prop: str, plan: Dict[str, Any], viol: Dict[str, str], timeout: float
) -> Optional[Dict[str, Any]]:
    """A violation is a known finding iff a listed entry has the same property and
    invariant, its culprit pattern occurs in the culprit, and the counterfactual replay
    (plan with the listed culprit neutralised) passes."""
    import re

    for f in load_known().get("findings", []):
        if f.get("property") != prop or f.get("invariant") != viol["invariant"]:
            continue
        if not re.search(f.get("culprit_regex", "^$"), viol["culprit"]):
            continue
        if not hasattr(engine, "neutralise"):
            continue
        cf = engine.neutralise(copy.deepcopy(plan), f)
        if cf is None:
            continue
        (r,) = exec_plans(engine.__name__, [cf], timeout)
        if isinstance(r, dict) and "harness" not in r and r.get("violation") is None:
            return f
    return None


# ------------------------------------------------------------------------------------
# replay files


def write_replay(prop: str, engine_name: str, seed: int, plan: Dict[str, Any],
                 viol: Dict[str, str], digest: str, original_len: int) -> str:
    body = {
        "property": prop,
        "engine": engine_name,
        "seed": seed,
        "violation": viol,
        "plan": plan,
        "digest": digest,
        "original_ops": original_len,
        "minimised_ops": len(plan.get("ops", [])),
    }
    h = hashlib.sha256(json.dumps(body, sort_keys=True).encode()).hexdigest()[:10]
    d = os.path.join(core.VERIF, "replays")
    os.makedirs(d, exist_ok=True)
    path = os.path.join(d, f"{prop}-{seed}-{h}.json")
    with open(path, "w") as f:
        json.dump(body, f, indent=1, sort_keys=True)
    return path


# ------------------------------------------------------------------------------------
# main driver


class Agg:
    def __init__(self) -> None:
        self.evaluations = 0
        self.steps = 0
        self.opseqs: set = set()
        self.states: set = set()
        self.nontrivial: set = set()
        self.faults: Dict[str, Dict[str, int]] = {}
        self.probes: Dict[str, int] = {}
        self.samples: List[Any] = []
        self.digests: Dict[int, str] = {}
        self.harness: List[str] = []
        self.violations: List[Dict[str, Any]] = []
        self.per_phase: Dict[str, int] = {}
        self.notes: Dict[str, int] = {}

    def add(self, r: Dict[str, Any], phase: str) -> None:
        self.evaluations += 1
        self.per_phase[phase] = self.per_phase.get(phase, 0) + 1
        self.steps += int(r.get("steps", 0))
        seq = tuple(r.get("opseq", []))
        self.opseqs.add(hash(seq))
        if len(seq) >= 2 or r.get("nontrivial"):
            self.nontrivial.add((phase,) + seq if len(seq) < 40 else hash(seq))
        for s in r.get("states", []):
            self.states.add(s)
        for k, v in r.get("faults", {}).items():
            d = self.faults.setdefault(k, {"planned": 0, "fired": 0})
            d["planned"] += int(v.get("planned", 0))
            d["fired"] += int(v.get("fired", 0))
        for k, v in r.get("probes", {}).items():
            self.probes[k] = self.probes.get(k, 0) + int(v)
        for n in r.get("notes", []):
            self.notes[n] = self.notes.get(n, 0) + 1
        if r.get("sample") is not None and len(self.samples) < 4:
            self.samples.append(r["sample"])
        self.digests[r.get("seed", -1)] = r.get("digest", "")
        if r.get("violation"):
            self.violations.append(r)


def run_check(engine_name: str, argv: Optional[List[str]] = None) -> int:
    core.ensure_hashseed()
    ap = argparse.ArgumentParser()
    ap.add_argument("--tier", default=os.environ.get("VERIF_TIER", "quick"),
                    choices=["quick", "thorough"])
    ap.add_argument("--seed", type=int, default=core.root_seed())
    ap.add_argument("--runs-scale", type=float,
                    default=float(os.environ.get("VERIF_RUNS_SCALE", "1")))
    ap.add_argument("--digests-out", default=None)
    ap.add_argument("--no-evidence", action="store_true")
    ap.add_argument("--phase", default=None)
    args = ap.parse_args(argv)

    t0 = time.monotonic()
    engine = importlib.import_module(engine_name)
    prop = engine.PROPERTY
    print(f"VERIF_SEED={args.seed} property={prop} engine={engine.NAME} tier={args.tier} "
          f"repo={core.REPO} nproc={core.ncpu()}", flush=True)
    core.bootstrap(need_dynamo=getattr(engine, "NEED_DYNAMO", False))
    if hasattr(engine, "warm"):
        engine.warm()

    agg = Agg()
    wall_cap = float(os.environ.get("VERIF_WALL_S", "0")) or None
    for ph in engine.phases(args.tier):
        if args.phase and ph["name"] != args.phase:
            continue
        runs = max(1, int(ph["runs"] * args.runs_scale))
        cap = wall_cap or ph.get("wall", 3600.0)
        t_ph = time.monotonic()
        stop = lambda: (time.monotonic() - t_ph) > cap  # noqa: E731
        seeds = [core.derive(args.seed, prop, ph["name"], i) for i in range(runs)]
        if ph.get("explicit"):
            # a fixed list of plans (deterministic probes of recorded findings)
            plans = engine.explicit_plans(args.tier, ph["name"])
            items = [(engine_name, i, p) for i, p in enumerate(plans)]
            runs = len(items)
            for _, item, status, value in core.fork_map(_exec_explicit, items, core.ncpu(), ph["timeout"], stop):
                if status == "ok":
                    agg.add(value, ph["name"])
                else:
                    agg.harness.append(f"{ph['name']} plan#{item[1]} {status}: {value}")
        elif ph.get("heavy"):
            items = [(engine_name, args.tier, ph["name"], s) for s in seeds]
            for _, item, status, value in core.fork_map(
                _gen_exec, items, core.ncpu(), ph["timeout"], stop
            ):
                if status == "ok":
                    agg.add(value, ph["name"])
                else:
                    agg.harness.append(f"{ph['name']} seed={item[3]} {status}: {value}")
        else:
            b = ph.get("batch", 50)
            items = [(engine_name, args.tier, ph["name"], seeds[i:i + b])
                     for i in range(0, len(seeds), b)]
            for _, item, status, value in core.fork_map(
                _exec_batch, items, core.ncpu(), ph["timeout"], stop, False
            ):
                if status == "ok":
                    for r in value:
                        agg.add(r, ph["name"])
                else:
                    agg.harness.append(
                        f"{ph['name']} batch seeds={item[3][:2]}.. {status}: {value}")
        print(f"phase {ph['name']}: {agg.per_phase.get(ph['name'], 0)}/{runs} runs, "
              f"{time.monotonic() - t_ph:.1f}s, violations so far {len(agg.violations)}",
              flush=True)

    # ---------------- violations: confirm, shrink, classify, replay
    exit_code = EXIT_OK
    reported: List[Dict[str, Any]] = []
    known_hits: Dict[str, Dict[str, Any]] = {}
    by_class: Dict[Tuple[str, str], Dict[str, Any]] = {}
    for r in sorted(agg.violations, key=lambda r: (len(r["plan"].get("ops", [])), r["seed"])):
        by_class.setdefault(core.vclass(r["violation"]), r)  # smallest plan per class
    max_classes = int(os.environ.get("VERIF_MAX_CLASSES", "6"))
    for cls, r in list(by_class.items())[:max_classes]:
        plan, seed = r["plan"], r["seed"]
        timeout = float(plan.get("timeout", 300))
        (c,) = exec_plans(engine_name, [plan], timeout)
        if not isinstance(c, dict) or "harness" in c or core.vclass(c.get("violation")) != cls:
            print(f"HARNESS-NONDETERMINISM property={prop} seed={seed} class={cls} "
                  f"second run gave {c.get('violation') if isinstance(c, dict) else c}",
                  flush=True)
            exit_code = max(exit_code, EXIT_HARNESS)
            continue
        budget = int(os.environ.get("VERIF_SHRINK_BUDGET", plan.get("shrink_budget", 200)))
        small, used = shrink(engine, plan, cls, timeout, budget)
        finding = match_known(engine, prop, small, r["violation"], timeout)
        (again,) = exec_plans(engine_name, [small], timeout)
        if not isinstance(again, dict) or "harness" in again or \
                core.vclass(again.get("violation")) != cls:
            print(f"HARNESS-NONDETERMINISM property={prop} seed={seed} minimised plan did "
                  f"not reproduce", flush=True)
            exit_code = max(exit_code, EXIT_HARNESS)
            continue
        path = write_replay(prop, engine_name, seed, small, again["violation"],
                            again.get("digest", ""), len(plan.get("ops", [])))
        if finding is not None:
            known_hits.setdefault(finding["id"], {"finding": finding, "replay": path})
            continue
        prog = ""
        specs = [small.get("spec")] + [p.get("spec") for p in small.get("progs", [])] if isinstance(small, dict) else []
        specs = [s_ for s_ in specs if s_]
        if specs:
            prog = " program shrunk to " + "+".join(str(len(s_["prog"])) for s_ in specs) + " statements: " + \
                " | ".join("/".join(st["op"] for st in s_["prog"]) for s_ in specs)[:300]
        print(f"violation class={cls} seed={seed} ops {len(plan.get('ops', []))} -> "
              f"{len(small.get('ops', []))} (shrink executions {used}){prog}")
        print(f"  detail: {again['violation']['detail'][:600]}")
        print(f"VIOLATION property={prop} replay={path}", flush=True)
        reported.append({"class": list(cls), "replay": path})
        exit_code = max(exit_code, EXIT_VIOLATION)
    for fid, k in known_hits.items():
        print(f"KNOWN-FINDING: property={prop} {fid}: {k['finding']['what']} "
              f"(replay={k['replay']})", flush=True)

    if agg.harness:
        for h in agg.harness[:5]:
            print("HARNESS-ERROR " + h[-3000:], flush=True)
        exit_code = max(exit_code, EXIT_HARNESS) if exit_code != EXIT_VIOLATION else exit_code

    wall = time.monotonic() - t0
    unfired = sorted(k for k, v in agg.faults.items() if v["planned"] and not v["fired"])
    if not args.no_evidence:
        ev = {
            "property_id": prop,
            "tier": args.tier,
            "seed": args.seed,
            "level": "exploration",
            "wall_s": round(wall, 2),
            "violations": len(reported),
            "coverage": {
                "evaluations": agg.evaluations,
                "distinct_nontrivial": len(agg.nontrivial),
                "rule": engine.RULE,
                "samples": agg.samples[:3] or [{"note": "no run completed"}],
                "simulated_runs": agg.evaluations,
                "runs_per_hour": int(agg.evaluations / max(wall, 1e-6) * 3600),
                "logical_steps": agg.steps,
                "simulated_time": "logical steps (the anchored code has no clock)",
                "distinct_op_sequences": len(agg.opseqs),
                "distinct_abstract_states": len(agg.states),
                "runs_per_phase": agg.per_phase,
                "fault_kinds": agg.faults,
                "fault_kinds_planned_but_never_fired": unfired,
                "reach_probes": dict(sorted(agg.probes.items())),
                "observations": dict(sorted(agg.notes.items())),
                "components": engine.COMPONENTS,
                "known_findings_hit": sorted(known_hits),
                "harness_errors": len(agg.harness),
                "exhaustive": False,
            },
            "assumptions": engine.ASSUMPTIONS,
        }
        os.makedirs(os.path.join(core.VERIF, "evidence"), exist_ok=True)
        with open(os.path.join(core.VERIF, "evidence", f"{prop}.json"), "w") as f:
            json.dump(ev, f, indent=1, sort_keys=True, default=str)
    if args.digests_out:
        with open(args.digests_out, "w") as f:
            json.dump({str(k): v for k, v in sorted(agg.digests.items())}, f)
    print(f"done property={prop} runs={agg.evaluations} steps={agg.steps} "
          f"distinct_opseqs={len(agg.opseqs)} states={len(agg.states)} wall={wall:.1f}s "
          f"exit={exit_code}", flush=True)
    return exit_code
