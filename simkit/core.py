"""simkit.core -- seeds, bootstrap of the simulated world, event log, fork pool.

One integer (VERIF_SEED) decides everything: every choice made by a generator is drawn
from a named child stream `derive(root, *path)`.  Nothing in this file reads a clock or a
PRNG in a logging path.
"""

from __future__ import annotations

import errno
import faulthandler
import hashlib
import json
import os
import random
import select
import shutil
import signal
import struct
import sys
import tempfile
import time
import traceback
from typing import Any, Callable, Dict, Iterable, Iterator, List, Optional, Tuple

REPO = os.path.abspath(os.environ.get("VERIF_REPO", "/repo"))
VERIF = os.path.dirname(os.path.dirname(os.path.abspath(__file__)))
SCRATCH_ROOT = os.environ.get("VERIF_SCRATCH", "/var/tmp")

# ------------------------------------------------------------------------------------
# seeds


def derive(*path: Any) -> int:
    """Deterministic 63-bit integer from a path of names/ints (SHA-256)."""
    h = hashlib.sha256("/".join(str(p) for p in path).encode()).digest()
    return struct.unpack(">Q", h[:8])[0] >> 1


def rng(*path: Any) -> random.Random:
    return random.Random(derive(*path))


def root_seed() -> int:
    return int(os.environ.get("VERIF_SEED", "0"))


# ------------------------------------------------------------------------------------
# bootstrap: make the interpreter a warm zygote


_BOOTSTRAPPED = False
_SCRATCH: Optional[str] = None


def ensure_hashseed() -> None:
    """Re-exec once with a pinned PYTHONHASHSEED so that set/dict-of-str iteration inside
    torch/Dynamo cannot differ between the run that finds a failure and its replay."""
    want = os.environ.get("VERIF_HASHSEED", "0")
    if os.environ.get("PYTHONHASHSEED") != want:
        os.environ["PYTHONHASHSEED"] = want
        os.execv(sys.executable, [sys.executable] + sys.orig_argv[1:])


def scratch_dir() -> str:
    """Private scratch directory of this (parent) process, removed at exit."""
    global _SCRATCH
    if _SCRATCH is None:
        _SCRATCH = tempfile.mkdtemp(prefix=f"verif-{os.getpid()}-", dir=SCRATCH_ROOT)
        import atexit

        parent = os.getpid()

        def _cleanup() -> None:
            if os.getpid() == parent and _SCRATCH:
                shutil.rmtree(_SCRATCH, ignore_errors=True)

        atexit.register(_cleanup)
    return _SCRATCH


def bootstrap(need_dynamo: bool = False) -> None:
    """Import torch + unit_scaling from $VERIF_REPO (default /repo) and pin every knob
    that could make one run influence the next.  Executes no tensor op that could spawn
    threads before the fork."""
    global _BOOTSTRAPPED
    if _BOOTSTRAPPED:
        return
    sd = scratch_dir()
    os.environ["TORCHINDUCTOR_CACHE_DIR"] = os.path.join(sd, "inductor")
    os.environ["TRITON_CACHE_DIR"] = os.path.join(sd, "triton")
    os.environ["TORCHINDUCTOR_FX_GRAPH_CACHE"] = "0"
    os.environ["TORCHINDUCTOR_AUTOGRAD_CACHE"] = "0"
    os.environ["TORCHINDUCTOR_COMPILE_THREADS"] = "1"
    os.environ.setdefault("OMP_NUM_THREADS", "1")
    os.environ.setdefault("MKL_NUM_THREADS", "1")
    if sys.path[0] != REPO:
        sys.path.insert(0, REPO)
    import warnings

    warnings.filterwarnings("ignore")
    import logging

    logging.disable(logging.CRITICAL)
    import torch

    torch.set_num_threads(1)
    try:
        torch.set_num_interop_threads(1)
    except RuntimeError:
        pass
    import unit_scaling  # noqa: F401

    got = os.path.abspath(unit_scaling.__file__)
    if not got.startswith(REPO + os.sep):
        raise RuntimeError(f"unit_scaling imported from {got}, expected under {REPO}")
    import torch._dynamo  # noqa: F401
    import torch._dynamo.config as dcfg

    for name, value in (
        ("automatic_dynamic_local_pgo", False),
        ("automatic_dynamic_remote_pgo", False),
    ):
        if hasattr(dcfg, name):
            try:
                setattr(dcfg, name, value)
            except Exception:
                pass
    try:
        import torch._inductor.config as icfg

        for name, value in (
            ("fx_graph_cache", False),
            ("fx_graph_remote_cache", False),
            ("autotune_local_cache", False),
            ("compile_threads", 1),
        ):
            if hasattr(icfg, name):
                setattr(icfg, name, value)
        import torch._functorch.config as fcfg

        if hasattr(fcfg, "enable_autograd_cache"):
            fcfg.enable_autograd_cache = False
    except Exception:
        pass
    if need_dynamo:
        import unit_scaling.transforms  # noqa: F401
    _BOOTSTRAPPED = True


# ------------------------------------------------------------------------------------
# event log: ordered, digestible, never draws


class EventLog:
    """Ordered record of what a run did.  `digest()` is what the determinism self-test
    compares; raw tensor bytes enter through `tensor_digest`."""

    def __init__(self) -> None:
        self.events: List[Any] = []
        self._h = hashlib.sha256()
        self.steps = 0

    def add(self, *ev: Any) -> None:
        self.steps += 1
        s = json.dumps(ev, sort_keys=True, default=str)
        self._h.update(s.encode())
        if len(self.events) < 400:
            self.events.append(ev)

    def digest(self) -> str:
        return self._h.hexdigest()[:24]


def tensor_digest(t: Any) -> str:
    """SHA-256 over dtype, shape and raw bytes of a tensor (or nested structure)."""
    import torch

    h = hashlib.sha256()

    def rec(x: Any) -> None:
        if isinstance(x, torch.Tensor):
            x = x.detach()
            h.update(str(x.dtype).encode())
            h.update(str(tuple(x.shape)).encode())
            if x.dtype == torch.bfloat16:
                x = x.view(torch.int16)
            h.update(x.contiguous().cpu().numpy().tobytes())
        elif isinstance(x, (list, tuple)):
            h.update(b"[")
            for y in x:
                rec(y)
            h.update(b"]")
        elif isinstance(x, dict):
            for k in sorted(x):
                h.update(str(k).encode())
                rec(x[k])
        else:
            h.update(repr(x).encode())

    rec(t)
    return h.hexdigest()[:16]


# ------------------------------------------------------------------------------------
# violations


class Violation(Exception):
    """Raised by an oracle.  `invariant` + `culprit` form the violation class used for
    shrinking and for matching known findings; `detail` is free text."""

    def __init__(self, invariant: str, culprit: str, detail: str = "") -> None:
        super().__init__(f"{invariant}: {culprit}: {detail}")
        self.invariant = invariant
        self.culprit = culprit
        self.detail = detail

    def as_dict(self) -> Dict[str, str]:
        return {
            "invariant": self.invariant,
            "culprit": self.culprit,
            "detail": self.detail[:2000],
        }


def vclass(v: Optional[Dict[str, str]]) -> Optional[Tuple[str, str]]:
    if not v:
        return None
    return (v["invariant"], v["culprit"])


# ------------------------------------------------------------------------------------
# fork pool: one fresh child per item, wall-clock kill, results over a pipe


def _child_main(fn: Callable[[Any], Any], item: Any, wfd: int, timeout_s: float,
                watchdog: bool = True) -> None:
    code = 0
    try:
        if watchdog:
            # never in a process that forks again or was forked from one with a watchdog:
            # faulthandler's watchdog thread does not survive fork() and re-arming it in the
            # child waits for that thread forever
            try:
                faulthandler.enable(file=sys.stderr)
                faulthandler.dump_traceback_later(max(1.0, timeout_s - 1.0), exit=False)
            except Exception:
                pass
        try:
            out = {"status": "ok", "value": fn(item)}
        except BaseException as e:  # harness exception: never a VIOLATION, never a pass
            out = {
                "status": "exc",
                "value": "".join(traceback.format_exception(type(e), e, e.__traceback__))[
                    -6000:
                ],
            }
        data = json.dumps(out, default=str).encode()
        off = 0
        while off < len(data):
            off += os.write(wfd, data[off : off + 65536])
        os.close(wfd)
    except BaseException:
        code = 3
    finally:
        try:
            sys.stdout.flush()
            sys.stderr.flush()
        except Exception:
            pass
        os._exit(code)


def fork_map(
    fn: Callable[[Any], Any],
    items: Iterable[Any],
    nproc: int,
    timeout_s: float,
    stop: Optional[Callable[[], bool]] = None,
    watchdog: bool = True,
) -> Iterator[Tuple[int, Any, str, Any]]:
    """Run `fn(item)` in a freshly forked child per item, at most `nproc` at a time.
    Yields (index, item, status, value) in completion order; status in
    {ok, exc, timeout, died}.  The caller must have bootstrapped (warm zygote)."""
    it = enumerate(items)
    live: Dict[int, Dict[str, Any]] = {}  # rfd -> info
    exhausted = False
    while True:
        while not exhausted and len(live) < nproc and not (stop and stop()):
            try:
                idx, item = next(it)
            except StopIteration:
                exhausted = True
                break
            rfd, wfd = os.pipe()
            sys.stdout.flush()
            sys.stderr.flush()
            pid = os.fork()
            if pid == 0:
                os.close(rfd)
                for other in live:
                    try:
                        os.close(other)
                    except OSError:
                        pass
                _child_main(fn, item, wfd, timeout_s, watchdog)
            os.close(wfd)
            live[rfd] = {
                "pid": pid,
                "idx": idx,
                "item": item,
                "buf": bytearray(),
                "deadline": time.monotonic() + timeout_s,
            }
        if stop and stop():
            exhausted = True
        if not live:
            if exhausted:
                return
            continue
        now = time.monotonic()
        wait = max(0.0, min(i["deadline"] for i in live.values()) - now)
        ready, _, _ = select.select(list(live), [], [], min(wait, 1.0))
        for rfd in ready:
            info = live[rfd]
            try:
                chunk = os.read(rfd, 1 << 20)
            except OSError as e:
                if e.errno == errno.EINTR:
                    continue
                chunk = b""
            if chunk:
                info["buf"] += chunk
                continue
            os.close(rfd)
            del live[rfd]
            _, st = os.waitpid(info["pid"], 0)
            try:
                out = json.loads(bytes(info["buf"]).decode())
                yield info["idx"], info["item"], out["status"], out["value"]
            except Exception:
                yield info["idx"], info["item"], "died", f"wait status {st}"
        now = time.monotonic()
        for rfd in [r for r, i in live.items() if i["deadline"] <= now]:
            info = live.pop(rfd)
            try:
                os.kill(info["pid"], signal.SIGKILL)
            except ProcessLookupError:
                pass
            os.waitpid(info["pid"], 0)
            os.close(rfd)
            yield info["idx"], info["item"], "timeout", f"killed after {timeout_s}s"


def run_in_child(fn: Callable[[Any], Any], item: Any, timeout_s: float) -> Tuple[str, Any]:
    for _, _, status, value in fork_map(fn, [item], 1, timeout_s):
        return status, value
    return "died", "no result"


def ncpu() -> int:
    try:
        n = len(os.sched_getaffinity(0))
    except Exception:
        n = os.cpu_count() or 1
    return max(1, int(os.environ.get("VERIF_NPROC", n)))
