"""Replay a minimised plan in a fresh child: `python -m simkit.replay <file> [-v]`.
Exit 1 + VIOLATION line iff the recorded violation class reproduces; exit 0 otherwise."""

from __future__ import annotations

import importlib
import json
import sys

from . import core, runner


def main() -> int:
    core.ensure_hashseed()
    path = sys.argv[1]
    verbose = "-v" in sys.argv[2:]
    with open(path) as f:
        body = json.load(f)
    engine = importlib.import_module(body["engine"])
    core.bootstrap(need_dynamo=getattr(engine, "NEED_DYNAMO", False))
    if hasattr(engine, "warm"):
        engine.warm()
    plan = body["plan"]
    (r,) = runner.exec_plans(body["engine"], [plan], float(plan.get("timeout", 300)))
    if not isinstance(r, dict) or "harness" in r:
        print(f"HARNESS-ERROR replay {path}: {r}")
        return 2
    want = core.vclass(body["violation"])
    got = core.vclass(r.get("violation"))
    if verbose:
        print(json.dumps(plan, indent=1))
    print(f"recorded class={want} digest={body.get('digest')}")
    print(f"replayed class={got} digest={r.get('digest')}")
    if got == want:
        print(f"  detail: {r['violation']['detail'][:1500]}")
        print(f"VIOLATION property={body['property']} replay={path}")
        return 1
    print("replay did not reproduce the recorded violation (property holds on this plan)")
    return 0


if __name__ == "__main__":
    sys.exit(main())
