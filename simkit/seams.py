"""Seams owned by the simulator that several engines share.

* PRF random source: `torch.randint` (looked up by the library at call time) is replaced by
  a function of (run key, low, high, shape) only -- independent of call order, so a
  reference that quantises operands in another order sees the same draws.  Every request is
  logged.
* LineFault: `sys.settrace` exception injection at the n-th *first-visit* line event inside
  chosen functions of unit_scaling/transforms/utils.py.  Line events that re-visit a `with`
  header while the block is being left are excluded: an exception there pre-empts __exit__,
  which only an asynchronous signal can do -- outside what the properties state.  So are lines
  whose bytecode is inert (`try:`).
"""

from __future__ import annotations

import sys
from typing import Any, List, Optional, Set, Tuple

import torch

from . import core

orig_randint = torch.randint


class PRFRandint:
    def __init__(self, key: int) -> None:
        self.key = key
        self.log: List[Tuple[int, int, Tuple[int, ...]]] = []
        self._installed = False

    def __call__(self, *args: Any, **kw: Any) -> Any:
        a = list(args)
        if len(a) >= 3:
            low, high, size = a[0], a[1], a[2]
        elif len(a) == 2:
            low, (high, size) = 0, a
        else:
            low, high, size = kw.pop("low", 0), kw.pop("high"), kw.pop("size")
        size = tuple(int(s) for s in size)
        self.log.append((int(low), int(high), size))
        g = torch.Generator().manual_seed(core.derive(self.key, low, high, size) % (1 << 62))
        kw.pop("generator", None)
        return orig_randint(int(low), int(high), size, generator=g, **kw)

    def install(self) -> "PRFRandint":
        torch.randint = self  # type: ignore[assignment]
        self._installed = True
        return self

    def uninstall(self) -> None:
        torch.randint = orig_randint  # type: ignore[assignment]
        self._installed = False

    def take_log(self) -> List[Tuple[int, int, Tuple[int, ...]]]:
        out, self.log = self.log, []
        return out


class InjectedFault(Exception):
    pass


class LineFault:
    TARGETS = ("new_forward", "new_fn", "composite_backend")

    def __init__(self, n: int, targets: Optional[Tuple[str, ...]] = None) -> None:
        self.n = n
        self.targets = targets or self.TARGETS
        self.count = 0
        self.fired = False
        self.site: Optional[Tuple[str, int]] = None
        self.seen: Set[Tuple[Any, int]] = set()  # holds the frames: ids stay unique
        self.sites_seen: List[Tuple[str, int]] = []
        self._inert_lines: dict = {}

    def _global(self, frame: Any, event: str, arg: Any) -> Any:
        if event == "call":
            code = frame.f_code
            if code.co_name in self.targets and code.co_filename.endswith("transforms/utils.py"):
                return self._local
        return None

    def _inert(self, code: Any, lineno: int) -> bool:
        """A line whose bytecode cannot raise (`try:` compiles to a NOP): an exception "at" it
        would sit between two statements, which only an asynchronous signal can do."""
        import dis

        tab = self._inert_lines.get(code)
        if tab is None:
            ops: dict = {}
            cur = None
            for ins in dis.get_instructions(code):
                if ins.starts_line is not None:
                    cur = ins.starts_line
                ops.setdefault(cur, set()).add(ins.opname)
            tab = {ln for ln, names in ops.items() if names <= {"NOP"}}
            # statements of `finally:` / `except` bodies are the recovery itself (the
            # counterpart of a context manager's __exit__, which is never traced): a clean-up
            # statement that fails is outside any recovery guarantee
            try:
                import ast

                with open(code.co_filename) as f:
                    tree = ast.parse(f.read())
                for node in ast.walk(tree):
                    if isinstance(node, ast.Try):
                        for st in list(node.finalbody) + [b for h in node.handlers for b in h.body]:
                            tab.update(range(st.lineno, (st.end_lineno or st.lineno) + 1))
            except Exception:
                pass
            self._inert_lines[code] = tab
        return lineno in tab

    def _local(self, frame: Any, event: str, arg: Any) -> Any:
        if event == "line":
            key = (frame, frame.f_lineno)
            if key not in self.seen and not self._inert(frame.f_code, frame.f_lineno):
                self.seen.add(key)
                self.count += 1
                self.sites_seen.append((frame.f_code.co_name, frame.f_lineno))
                if self.count == self.n and not self.fired:
                    self.fired = True
                    self.site = (frame.f_code.co_name, frame.f_lineno)
                    raise InjectedFault(f"injected at {self.site}")
        return self._local

    def __enter__(self) -> "LineFault":
        self._old = sys.gettrace()
        sys.settrace(self._global)
        return self

    def __exit__(self, *a: Any) -> None:
        sys.settrace(self._old)
