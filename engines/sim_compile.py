"""sim_compile -- C20: eager and torch.compile execution of scaled ops agree.

A compiled callable is a cache keyed by guards whose behaviour depends on the *history* of
calls (static graph -> dynamic-shape promotion on the first mismatch -> eager fallback when
the recompile limit is exceeded -> everything dropped by a reset).  Per run one scaled
function / module / composition is compiled under randomised knobs and driven through a seeded
call history; every call that succeeds in eager is compared with the compiled result.
"""

from __future__ import annotations

import copy
from typing import Any, Callable, Dict, Iterable, List, Optional, Tuple

from simkit import core
from simkit.core import Violation
from simkit.runner import empty_result

PROPERTY = "C20"
NAME = "sim_compile"
NEED_DYNAMO = True
COMPONENTS = {
    "real": ["unit_scaling.functional / unit_scaling modules / unit_scaling.scale._ScaledGrad (tracing branches)",
             "torch.compile: TorchDynamo + AOT autograd, backend aot_eager (quick) and inductor (thorough)",
             "torch.fx.symbolic_trace + GraphModule; unit_scaling.utils._DeepTracer (leaf-wrapping tracer)"],
    "stub": ["none: the simulator owns the call history, the knobs (recompile limit, dynamic-shape mode, fullgraph) and the cache-loss faults"],
}
ASSUMPTIONS = [
    "tolerances are float rounding relative to the tensor's max |.|: float64 1e-11, float32 2e-5, bfloat16 2^-6 (a compiled graph may fuse / reorder / upcast, so results are not bitwise); shapes and dtypes must be equal",
    "dropout only with p = 0 or eval (compiled RNG streams legitimately differ from eager ones)",
    "a call that fails in eager serves only as a fault; a call that succeeds in eager must succeed compiled",
    "plain fx tracing is only required to reproduce forward values; a TraceError is recorded as 'not traceable', not as a violation",
    "seeded search: a clean batch is evidence, not proof",
]
RULE = (
    "per run one callable (a public scaled function, a unit-scaled module, or a chain of 2-6 functions; seeded mult / constraint / "
    "dim / eps / causal / tau hyper-parameters given as floats or ints; one- and two-sided broadcasts in add; softmax over -inf-masked scores; tensors incl. weights passed as arguments, "
    "sometimes the same tensor for two arguments) compiled under knobs (recompile_limit 1|2|8, "
    "automatic_dynamic_shapes on|off, dynamic None|False|True, fullgraph) and a history of 3-8 calls varying batch dims, feature "
    "dim, dtype float32|float64|bfloat16, requires_grad mask, grad mode, fwd|fwd+bwd, with dynamo.reset and failing-call faults; "
    "non-trivial = >= 2 compared calls with different signatures; distinct = (atoms, knobs, cache-outcome sequence)"
)

# None (distinct forward and backward factors) is the case the property singles out: weighted up
UNARY_CONSTRAINTS = [None, None, None, "to_output_scale", "to_grad_input_scale", "gmean", "hmean", "amean"]
TERNARY_CONSTRAINTS = [None, None, None, "to_output_scale", "to_left_grad_scale", "to_right_grad_scale", "gmean", "hmean",
                       "amean"]
ATOMS = ["gelu", "silu", "softmax", "masked_softmax", "dropout", "layer_norm", "rms_norm", "linear", "linear_readout", "matmul",
         "add", "add_scalar", "add_bcast", "add_mutual", "residual", "silu_glu", "sdpa", "conv1d", "scale", "graph_break"]
MODULES = ["Linear", "MLP", "MHSA", "TransformerLayer", "LayerNorm", "RMSNorm", "GELU", "SiLU", "Softmax",
           "LinearReadout", "DepthSequential", "Embedding", "Conv1d", "Dropout", "TransformerDecoder", "CrossEntropyLoss",
           "DepthModuleList"]


def phases(tier: str) -> List[Dict[str, Any]]:
    if tier == "quick":
        return [
            {"name": "aot_eager", "runs": 176, "heavy": True, "timeout": 300, "wall": 110},
            {"name": "fx", "runs": 96, "heavy": True, "timeout": 300, "wall": 60},
            {"name": "known", "runs": 4, "heavy": True, "timeout": 300, "wall": 60},
            {"name": "known_fixed", "runs": 4, "explicit": True, "timeout": 600, "wall": 200},
        ]
    return [
        {"name": "aot_eager", "runs": 6000, "heavy": True, "timeout": 400, "wall": 1800},
        {"name": "inductor", "runs": 400, "heavy": True, "timeout": 900, "wall": 1500},
        {"name": "fx", "runs": 3000, "heavy": True, "timeout": 300, "wall": 600},
        {"name": "known", "runs": 32, "heavy": True, "timeout": 300, "wall": 120},
        {"name": "known_fixed", "runs": 4, "explicit": True, "timeout": 600, "wall": 200},
    ]


# ------------------------------------------------------------------------------------
# generation


def _gen_atom(r: Any, first: bool) -> Dict[str, Any]:
    k = r.choice(ATOMS)
    a: Dict[str, Any] = {"atom": k}
    if k in ("gelu", "silu", "softmax", "masked_softmax"):
        a["mult"] = r.choice([1.0, 1.0, 0.25, 4.0, 1, 2])  # ints too: the library branches on `mult == 1`
        a["constraint"] = r.choice(UNARY_CONSTRAINTS)
        if k == "gelu":
            a["approximate"] = r.choice(["none", "tanh"])
    elif k in ("layer_norm", "rms_norm"):
        a["affine"] = r.random() < 0.6
        a["eps"] = r.choice([1e-5, 1e-3])
    elif k in ("linear", "linear_readout"):
        a["bias"] = r.random() < 0.5
        a["dout"] = r.choice([3, 4, 8])
        a["constraint"] = r.choice(UNARY_CONSTRAINTS)
    elif k == "matmul":
        a["dout"] = r.choice([3, 4, 8])
        a["constraint"] = r.choice(TERNARY_CONSTRAINTS)
    elif k in ("add", "add_bcast", "add_mutual"):
        a["constraint"] = r.choice(TERNARY_CONSTRAINTS)
    elif k == "residual":
        a["tau"] = r.choice([0.5, 1.0, 0.01, 1, 2])
        a["inner"] = r.choice(["gelu", "linear", "softmax"])
    elif k == "silu_glu":
        a["mult"] = r.choice([1.0, 0.25, 4.0])
    elif k == "sdpa":
        a["causal"] = r.random() < 0.5
        a["mult"] = r.choice([1.0, 2.0])
        a["proj"] = r.random() < 0.5
    elif k == "conv1d":
        a["cout"] = r.choice([2, 3])
        a["ksz"] = r.choice([1, 3])
        a["bias"] = r.random() < 0.5
        a["stride"] = r.choice([1, 1, 2])
        a["constraint"] = r.choice(UNARY_CONSTRAINTS)
    elif k == "scale":
        a["fwd"] = r.choice([1.0, 0.5, 3.0])
        a["bwd"] = r.choice([1.0, 0.25, 2.0])
    return a


def _gen_call(r: Any, dtypes: List[str]) -> Dict[str, Any]:
    nb = r.choice([1, 2, 2, 3])
    return {"op": "call", "batch": [r.choice([1, 2, 3, 5]) for _ in range(nb)], "D": r.choice([4, 6, 8]),
            "dtype": r.choice(dtypes), "mode": r.choice(["bwd", "bwd", "bwd", "fwd", "nograd"]),
            "mask": r.randrange(1, 64), "tseed": r.randrange(1 << 30), "noncontig": r.random() < 0.2,
            "alias": r.random() < 0.1}


def generate(seed: int, tier: str, phase: str) -> Dict[str, Any]:
    r = core.rng(seed, "workload")
    plan: Dict[str, Any] = {"phase": phase, "timeout": 300 if phase != "inductor" else 900, "shrink_budget": 60}
    kind = r.choice(["fn", "fn", "chain", "chain", "chain", "module", "module", "loss"])
    plan["kind"] = kind
    if kind == "module":
        plan["module"] = {"type": r.choice(MODULES), "D": r.choice([4, 8]), "mseed": r.randrange(1 << 20),
                          "dtype": r.choice(["float32", "float32", "float64", "bfloat16"]),
                          "constraint": r.choice(["to_output_scale", None, "gmean"])}
        plan["atoms"] = []
    else:
        n = 1 if kind == "fn" else r.choice([2, 3, 4, 6])
        plan["atoms"] = [_gen_atom(r, i == 0) for i in range(n)]
        if kind == "loss":
            plan["atoms"] = plan["atoms"][:2]
            plan["loss"] = {"kind": r.choice(["cross_entropy", "mse_loss"]), "mult": r.choice([1.0, 0.5]),
                            "reduction": r.choice(["mean", "sum"])}
        if r.random() < 0.15:
            plan["embed"] = {"vocab": r.choice([7, 13])}
        if kind != "loss" and r.random() < 0.3:
            # several outputs leave the compiled region, some of them aliases of one
            # intermediate that differ only in their backward factor
            plan["tail"] = {"kind": r.choice(["split", "split", "pair_scale_bwd", "pair_fn"]),
                            "tau": r.choice([0.5, 1.0, 0.2]), "s": r.choice([0.25, 2.0])}
    plan["knobs"] = {"recompile_limit": r.choice([1, 2, 8, 8]), "automatic_dynamic": r.random() < 0.7,
                     "dynamic": r.choice([None, None, False]), "fullgraph": r.random() < 0.5}
    if plan["knobs"]["fullgraph"]:
        plan["knobs"]["recompile_limit"] = 8  # torch turns a limit hit into a hard error under fullgraph
    if phase == "known":
        plan["knobs"].update(dynamic=True, recompile_limit=8, fullgraph=False)
    dtypes = r.choice([["float32"], ["float32", "float64"], ["float32", "bfloat16"], ["float32", "float64", "bfloat16"]])
    if kind == "module":
        dtypes = [plan["module"]["dtype"]]
    ops: List[Dict[str, Any]] = []
    base = _gen_call(r, dtypes)
    if r.random() < 0.3:
        # an inference / validation pass first, then training with the same signature
        first = copy.deepcopy(base)
        first["mode"] = "nograd"
        first["tseed"] = r.randrange(1 << 30)
        ops.append(first)
        base["mode"] = "bwd"
    ops.append(base)
    for _ in range(r.choice([2, 3, 4, 5, 7])):
        x = r.random()
        if x < 0.12:
            ops.append({"op": "reset"})
        elif x < 0.22:
            ops.append({"op": "bad_call"})
        elif x < 0.32 and kind == "module":
            # a legal change of a hyper-parameter attribute on the (shared) module between calls
            ops.append({"op": "set_attr", "i": r.randrange(16), "v": r.randrange(8)})
        elif x < 0.45:
            c = copy.deepcopy(base)  # same signature again: cache hit expected
            c["tseed"] = r.randrange(1 << 30)
            c["mode"] = r.choice(["bwd", "fwd", "nograd"]) if x < 0.3 else base["mode"]
            ops.append(c)
        elif x < 0.7:
            c = copy.deepcopy(base)  # only the leading batch dims change
            c["batch"] = [r.choice([1, 2, 3, 5, 7]) for _ in c["batch"]]
            c["tseed"] = r.randrange(1 << 30)
            ops.append(c)
        else:
            ops.append(_gen_call(r, dtypes))
    if kind == "module" and r.random() < 0.6:
        # call, change hyper-parameter attributes on the module, call again with the same signature
        again = copy.deepcopy(base)
        again["tseed"] = r.randrange(1 << 30)
        ops[1:1] = [{"op": "set_attr", "i": r.randrange(16), "v": r.randrange(8)}, again]
    plan["ops"] = ops
    return plan


def explicit_plans(tier: str, phase: str) -> List[Dict[str, Any]]:
    """Deterministic probes of two recorded findings (plans copied from minimised replays)."""
    kn = {"recompile_limit": 8, "automatic_dynamic": True, "dynamic": None, "fullgraph": True}
    d14 = {"phase": "aot_eager", "kind": "chain", "timeout": 300, "shrink_budget": 0, "knobs": dict(kn),
           "atoms": [{"atom": "sdpa", "causal": True, "mult": 1.0, "proj": True},
                     {"atom": "silu", "constraint": None, "mult": 4.0}],
           "ops": [{"op": "call", "batch": [3, 2], "D": 4, "dtype": "float64", "mode": "fwd", "mask": 2, "tseed": 63938711},
                   {"op": "call", "batch": [2, 3], "D": 8, "dtype": "float64", "mode": "fwd", "mask": 58, "tseed": 235322127}]}
    d15 = {"phase": "inductor", "kind": "chain", "timeout": 600, "shrink_budget": 0,
           "knobs": dict(kn, fullgraph=False),
           "atoms": [{"atom": "matmul", "dout": 4, "constraint": None}],
           "tail": {"kind": "split", "tau": 0.5, "s": 2.0},
           "ops": [{"op": "call", "batch": [3], "D": 6, "dtype": "float32", "mode": "bwd", "mask": 16, "tseed": 963036914}]}
    d12 = {"phase": "known", "kind": "fn", "timeout": 300, "shrink_budget": 0,
           "knobs": dict(kn, dynamic=True, fullgraph=False),
           "atoms": [{"atom": "linear_readout", "bias": False, "constraint": "to_grad_input_scale", "dout": 3}],
           "ops": [{"op": "call", "batch": [2], "D": 6, "dtype": "float32", "mode": "bwd", "mask": 61, "tseed": 657959300}]}
    d19 = {"atoms": [{"atom": "matmul", "constraint": None, "dout": 3}, {"atom": "sdpa", "causal": True, "mult": 2.0, "proj": False}, {"atom": "conv1d", "bias": False, "constraint": "to_output_scale", "cout": 3, "ksz": 3, "stride": 1}], "kind": "chain", "knobs": {"automatic_dynamic": True, "dynamic": None, "fullgraph": True, "recompile_limit": 8}, "ops": [{"D": 4, "batch": [1], "dtype": "float32", "mask": 22, "mode": "bwd", "op": "call", "tseed": 419276206}, {"D": 4, "batch": [7, 7], "dtype": "float32", "mask": 22, "mode": "bwd", "op": "call", "tseed": 495302353}], "phase": "inductor", "shrink_budget": 0, "timeout": 900}
    return [d12, d14, d15, d19]


# ------------------------------------------------------------------------------------
# the callable under test


class Built:
    def __init__(self) -> None:
        self.fn: Any = None
        self.make_args: Any = None  # (call cfg) -> list of tensors
        self.module: Any = None


def _dtype(name: str) -> Any:
    import torch

    return getattr(torch, name)


def build(plan: Dict[str, Any]) -> Built:
    import torch
    import unit_scaling as uu
    import unit_scaling.functional as U
    from unit_scaling.scale import scale_bwd, scale_fwd

    b = Built()
    if plan["kind"] == "module":
        m = plan["module"]
        D = m["D"]
        torch.manual_seed(m["mseed"])
        t = m["type"]
        ids_input = False
        if t == "Linear":
            mod = uu.Linear(D, 6, bias=True, constraint=m["constraint"])
        elif t == "LinearReadout":
            mod = uu.LinearReadout(D, 5, bias=False, constraint=m["constraint"])
        elif t == "MLP":
            mod = uu.MLP(D)
        elif t == "MHSA":
            mod = uu.MHSA(D, heads=2, is_causal=True, dropout_p=0.0)
        elif t == "TransformerLayer":
            mod = uu.TransformerLayer(D, heads=2, mhsa_tau=0.3, mlp_tau=0.7, is_causal=False, dropout_p=0.0)
        elif t == "LayerNorm":
            mod = uu.LayerNorm(D, elementwise_affine=True)
        elif t == "RMSNorm":
            mod = uu.RMSNorm(D, elementwise_affine=True)
        elif t == "GELU":
            mod = uu.GELU(mult=2.0, constraint=m["constraint"])
        elif t == "SiLU":
            mod = uu.SiLU(mult=0.5, constraint=m["constraint"])
        elif t == "Softmax":
            mod = uu.Softmax(dim=-1, mult=2.0, constraint=m["constraint"])
        elif t == "Dropout":
            mod = uu.Dropout(p=0.3).eval()
        elif t == "DepthSequential":
            mod = uu.DepthSequential(uu.Linear(D, D), uu.GELU(), uu.Linear(D, D, bias=True))
        elif t == "Embedding":
            mod = uu.Embedding(11, D)
            ids_input = True
        elif t == "TransformerDecoder":
            mod = uu.TransformerDecoder(D, 11, layers=2, heads=2)
            ids_input = True
        elif t == "CrossEntropyLoss":
            mod = uu.CrossEntropyLoss(mult=0.5)
        elif t == "DepthModuleList":
            inner = uu.DepthModuleList([uu.Linear(D, D, bias=True), uu.Linear(D, D)])

            class Seq(torch.nn.Module):
                def __init__(self) -> None:
                    super().__init__()
                    self.layers = inner

                def forward(self, x: Any) -> Any:
                    for layer in self.layers:
                        x = uu.functional.gelu(layer(x))
                    return x

            mod = Seq()
        elif t == "Conv1d":
            mod = uu.Conv1d(3, 4, 3, padding=1, bias=True)
        else:
            raise ValueError(t)
        mod = mod.to(_dtype(m["dtype"]))
        b.module = mod
        b.fn = mod

        def make_args(c: Dict[str, Any]) -> List[Any]:
            g = torch.Generator().manual_seed(c["tseed"])
            batch = list(c["batch"])
            if t in ("MHSA", "TransformerLayer") and len(batch) < 2:
                batch = batch + [3]
            if t in ("MHSA", "TransformerLayer"):
                batch = batch[:2]
            if t == "TransformerDecoder":
                batch = (batch + [3])[:2]
            if ids_input:
                from simkit.seams import orig_randint

                return [orig_randint(0, 11, tuple(batch), generator=g)]
            if t == "CrossEntropyLoss":
                from simkit.seams import orig_randint

                n = 1
                for b_ in batch:
                    n *= b_
                return [torch.randn(n, 7, generator=g).to(_dtype(m["dtype"])), orig_randint(0, 7, (n,), generator=g)]
            if t == "Conv1d":
                return [torch.randn(batch[0], 3, 6 + batch[-1], generator=g).to(_dtype(m["dtype"]))]
            return [torch.randn(*batch, D, generator=g).to(_dtype(m["dtype"]))]

        b.make_args = make_args
        return b

    atoms = plan["atoms"]
    loss = plan.get("loss")
    embed = plan.get("embed")
    tail = plan.get("tail")

    # the weight layout is derived per call from (batch, D): (list of shapes, per-atom slices)
    def layout(batch: List[int], D: int) -> Tuple[List[Tuple[str, Tuple[int, ...]]], List[int]]:
        shapes: List[Tuple[str, Tuple[int, ...]]] = []
        cur = list(batch) + [D]
        if embed:
            shapes.append(("ids", tuple(batch)))
            shapes.append(("w", (embed["vocab"], D)))
        else:
            shapes.append(("x", tuple(cur)))
        for a in atoms:
            k = a["atom"]
            d = cur[-1]
            if k in ("layer_norm",) and a["affine"]:
                shapes += [("w1", (d,)), ("w", (d,))]
            elif k == "rms_norm" and a["affine"]:
                shapes += [("w1", (d,))]
            elif k in ("linear", "linear_readout"):
                shapes.append(("w", (a["dout"], d)))
                if a["bias"]:
                    shapes.append(("w", (a["dout"],)))
                cur = cur[:-1] + [a["dout"]]
            elif k == "matmul":
                shapes.append(("w", (d, a["dout"])))
                cur = cur[:-1] + [a["dout"]]
            elif k in ("add", "silu_glu"):
                shapes.append(("x", tuple(cur)))
            elif k in ("add_bcast", "add_mutual"):
                shapes.append(("x", (d,)))
            elif k == "residual" and a["inner"] == "linear":
                shapes.append(("w", (d, d)))
            elif k == "sdpa" and a["proj"]:
                shapes += [("w", (d, d)), ("w", (d, d)), ("w", (d, d))]
            elif k == "conv1d":
                if len(cur) == 3:
                    shapes.append(("w", (a["cout"], cur[1], a["ksz"])))
                    if a["bias"]:
                        shapes.append(("w", (a["cout"],)))
                    lout = (cur[2] + 2 * (a["ksz"] // 2) - (a["ksz"] - 1) - 1) // a["stride"] + 1
                    cur = [cur[0], a["cout"], lout]
        if loss:
            if loss["kind"] == "cross_entropy":
                n = 1
                for s in cur[:-1]:
                    n *= s
                shapes.append(("tgt", (n, cur[-1])))
            else:
                shapes.append(("x", tuple(cur)))
        return shapes, cur

    def fn(*ts: Any) -> Any:
        it = iter(ts)
        if embed:
            ids = next(it)
            x = U.embedding(ids, next(it))
        else:
            x = next(it)
        for a in atoms:
            k = a["atom"]
            if k == "gelu":
                x = U.gelu(x, mult=a["mult"], constraint=a["constraint"], approximate=a["approximate"])
            elif k == "silu":
                x = U.silu(x, mult=a["mult"], constraint=a["constraint"])
            elif k == "softmax":
                x = U.softmax(x, dim=-1, constraint=a["constraint"], mult=a["mult"])
            elif k == "masked_softmax":
                # -inf where masked (never the first position of a row): finite in eager
                keep0 = torch.arange(x.shape[-1], device=x.device) == 0
                x = x.masked_fill((x < 0) & ~keep0, float("-inf"))
                x = U.softmax(x, dim=-1, constraint=a["constraint"], mult=a["mult"])
            elif k == "dropout":
                x = U.dropout(x, p=0.0, training=True)
            elif k == "layer_norm":
                d = x.shape[-1]
                if a["affine"]:
                    x = U.layer_norm(x, (d,), next(it), next(it), a["eps"])
                else:
                    x = U.layer_norm(x, (d,), None, None, a["eps"])
            elif k == "rms_norm":
                d = x.shape[-1]
                x = U.rms_norm(x, (d,), next(it) if a["affine"] else None, a["eps"])
            elif k == "linear":
                w = next(it)
                x = U.linear(x, w, next(it) if a["bias"] else None, constraint=a["constraint"])
            elif k == "linear_readout":
                w = next(it)
                x = U.linear_readout(x, w, next(it) if a["bias"] else None, constraint=a["constraint"])
            elif k == "matmul":
                x = U.matmul(x, next(it), constraint=a["constraint"])
            elif k in ("add", "add_bcast"):
                x = U.add(x, next(it), constraint=a["constraint"])
            elif k == "add_mutual":
                # both operands are expanded: [..., 1] + [d] (the result is larger than either)
                x = U.add(x[..., :1], next(it), constraint=a["constraint"])
            elif k == "add_scalar":
                x = U.add(x, 2.5)
            elif k == "residual":
                if a["inner"] == "gelu":
                    x = U.residual_apply(lambda r_: U.gelu(r_), x, a["tau"])
                elif a["inner"] == "softmax":
                    x = U.residual_apply(lambda r_: U.softmax(r_, dim=-1), x, a["tau"])
                else:
                    w = next(it)
                    x = U.residual_apply(lambda r_: U.linear(r_, w, None), x, a["tau"])
            elif k == "silu_glu":
                x = U.silu_glu(x, next(it), mult=a["mult"])
            elif k == "sdpa":
                if x.dim() >= 3:
                    if a["proj"]:
                        q, kk, v = (U.linear(x, next(it), None) for _ in range(3))
                    else:
                        q = kk = v = x
                    x = U.scaled_dot_product_attention(q, kk, v, is_causal=a["causal"], mult=a["mult"])
                elif a["proj"]:
                    next(it), next(it), next(it)
            elif k == "conv1d":
                if x.dim() == 3:
                    w = next(it)
                    x = U.conv1d(x, w, next(it) if a["bias"] else None, stride=a["stride"], padding=a["ksz"] // 2,
                                 constraint=a["constraint"])
            elif k == "scale":
                x = scale_bwd(scale_fwd(x, a["fwd"]), a["bwd"])
            elif k == "graph_break":
                if not plan["knobs"]["fullgraph"]:
                    torch._dynamo.graph_break()
        if tail:
            if tail["kind"] == "split":
                return U.residual_split(x, tail["tau"])
            if tail["kind"] == "pair_scale_bwd":
                return x, scale_bwd(x, tail["s"])
            return x, U.gelu(x)
        if loss:
            t = next(it)
            if loss["kind"] == "cross_entropy":
                x = U.cross_entropy(x.flatten(0, -2), t, reduction=loss["reduction"], mult=loss["mult"])
            else:
                x = U.mse_loss(x, t, reduction=loss["reduction"])
        return x

    def make_args(c: Dict[str, Any]) -> List[Any]:
        from simkit.seams import orig_randint

        g = torch.Generator().manual_seed(c["tseed"])
        shapes, _ = layout(list(c["batch"]), c["D"])
        dt = _dtype(c["dtype"])
        out: List[Any] = []
        for kind_, shp in shapes:
            if kind_ == "ids":
                out.append(orig_randint(0, embed["vocab"], shp, generator=g))
            elif kind_ == "tgt":
                out.append(orig_randint(0, shp[1], (shp[0],), generator=g))
            elif kind_ == "w1":
                out.append((1.0 + 0.2 * torch.randn(*shp, generator=g)).to(dt))
            elif kind_ == "w":
                out.append((torch.randn(*shp, generator=g) * (shp[-1] ** -0.5 if len(shp) > 1 else 0.3)).to(dt))
            else:
                out.append(torch.randn(*shp, generator=g).to(dt))
        return out

    b.fn = fn
    b.make_args = make_args
    return b


# ------------------------------------------------------------------------------------
# execution


def _prep(args: List[Any], mask: int, mode: str, noncontig: bool = False, alias: bool = False) -> List[Any]:
    out = []
    j = 0
    if alias:
        # the same tensor object passed for two arguments of equal shape (inputs that alias each other)
        args = list(args)
        for i2 in range(1, len(args)):
            if args[i2].is_floating_point() and args[0].is_floating_point() and args[i2].shape == args[0].shape:
                first = args[0].detach().clone()
                if mode == "bwd":
                    first.requires_grad_()
                rest = _prep(args[1:i2] + args[i2 + 1:], mask, mode, noncontig)
                return [first] + rest[: i2 - 1] + [first] + rest[i2 - 1:]

    for t in args:
        c = t.detach().clone()
        if noncontig and c.dim() >= 2 and c.is_floating_point():
            # same values, transposed memory layout
            c = c.transpose(0, -1).contiguous().transpose(0, -1)
        if c.is_floating_point():
            if mode == "bwd" and (mask >> (j % 6)) & 1:
                c.requires_grad_()
            j += 1
        out.append(c)
    if mode == "bwd" and not any(t.requires_grad for t in out if t.is_floating_point()):
        for t in out:
            if t.is_floating_point():
                t.requires_grad_()
                break
    return out


def _call(fn: Any, module: Any, args: List[Any], mode: str, gseed: int) -> Dict[str, Any]:
    import torch

    if mode == "nograd":
        with torch.no_grad():
            y = fn(*args)
    else:
        y = fn(*args)
    ys = list(y) if isinstance(y, (tuple, list)) else [y]
    res: Dict[str, Any] = {"outs": [t.detach().clone() for t in ys], "req": [bool(t.requires_grad) for t in ys],
                           "grads": None}
    res["out"] = res["outs"][0]
    diff = [t for t in ys if t.requires_grad]
    if mode == "bwd" and diff:
        gen = torch.Generator().manual_seed(gseed)
        gs_in = [torch.randn(t.shape, generator=gen, dtype=torch.float32).to(t.dtype) for t in diff]
        wrt = [t for t in args if t.is_floating_point() and t.requires_grad]
        if module is not None:
            wrt = wrt + [p for p in module.parameters()]
        gs = torch.autograd.grad(diff, wrt, gs_in, allow_unused=True)
        res["grads"] = [None if x is None else x.detach().clone() for x in gs]
    return res


TOL = {"torch.float64": 1e-11, "torch.float32": 2e-5, "torch.bfloat16": 2.0 ** -6, "torch.float16": 2.0 ** -9}


def _within_rounding_of_reference(built: Any, args: List[Any], op: Dict[str, Any], got: Dict[str, Any],
                                  want: Dict[str, Any]) -> bool:
    """err(compiled, ref64) <= 4 * err(eager, ref64) + dtype rounding, for outputs and gradients,
    where ref64 is the eager computation of the same callable on float64 copies of the inputs."""
    import torch

    a64 = [t.double() if t.is_floating_point() else t for t in args]
    try:
        if built.module is not None:
            ref_mod = copy.deepcopy(built.module).double()  # same parameters, float64 arithmetic
            ref = _call(ref_mod, ref_mod, _prep(a64, op["mask"], op["mode"]), op["mode"], op["tseed"] % 1000)
        else:
            ref = _call(built.fn, None, _prep(a64, op["mask"], op["mode"]), op["mode"], op["tseed"] % 1000)
    except Exception:
        return False
    def errs(side: Dict[str, Any]) -> List[Tuple[float, float]]:
        out = []
        pairs = list(zip(side["outs"], ref["outs"]))
        if side["grads"] is not None and ref["grads"] is not None:
            pairs += [(x, y) for x, y in zip(side["grads"], ref["grads"]) if x is not None and y is not None]
        for x, y in pairs:
            out.append((float((x.double() - y).abs().max()) if x.numel() else 0.0,
                        float(y.abs().max()) if y.numel() else 0.0))
        return out
    ec, ee = errs(got), errs(want)
    if len(ec) != len(ee):
        return False
    unit = TOL.get(str(want["outs"][0].dtype), 2.0 ** -6)
    gmax = max([s_ for _, s_ in ee] + [1e-30])
    return all(c <= 4.0 * e + unit * max(s_, 1e-3 * gmax) for (c, s_), (e, _) in zip(ec, ee))


def _cmp(a: Any, b: Any, what: str, tol_scale: float = 1.0, min_scale: float = 0.0) -> Optional[str]:
    import torch

    if a is None or b is None:
        return None if (a is None and b is None) else f"{what}: one side is None"
    if a.shape != b.shape:
        return f"{what}: shape {tuple(a.shape)} vs {tuple(b.shape)}"
    if a.dtype != b.dtype:
        return f"{what}: dtype {a.dtype} vs {b.dtype}"
    if a.numel() == 0:
        return None
    tol = TOL.get(str(a.dtype), 2e-5) * tol_scale
    x, y = a.double(), b.double()
    if torch.isnan(x).any() or torch.isnan(y).any():
        return None if bool((torch.isnan(x) == torch.isnan(y)).all()) else f"{what}: NaN pattern differs"
    scale = max(float(x.abs().max()), float(y.abs().max()), 1e-30, 1e-3 * min_scale)
    err = float((x - y).abs().max())
    if err > tol * scale:
        return f"{what}: max|diff|={err:.3e} scale={scale:.3e} tol={tol:.1e} dtype={a.dtype}"
    return None


def execute(plan: Dict[str, Any]) -> Dict[str, Any]:
    import torch
    import torch._dynamo
    import torch._dynamo.config as dcfg
    from torch._dynamo.utils import counters

    res = empty_result()
    log = core.EventLog()
    faults: Dict[str, Dict[str, int]] = {}
    probes: Dict[str, int] = {}
    states: List[str] = []

    def fault(kind: str, fired: bool) -> None:
        d = faults.setdefault(kind, {"planned": 0, "fired": 0})
        d["planned"] += 1
        d["fired"] += int(fired)

    def probe(name: str, k: int = 1) -> None:
        probes[name] = probes.get(name, 0) + k

    sig = plan["kind"] + ":" + ("+".join(a["atom"] for a in plan["atoms"]) or plan.get("module", {}).get("type", "")) + \
        (":" + plan["loss"]["kind"] if plan.get("loss") else "") + (":embed" if plan.get("embed") else "") + \
        (":tail_" + plan["tail"]["kind"] if plan.get("tail") else "")
    res["opseq"].append(sig)
    try:
        built = build(plan)
        if plan["phase"] == "fx":
            _fx_phase(plan, built, res, log, probe, states, sig)
        else:
            kn = plan["knobs"]
            dcfg.recompile_limit = kn["recompile_limit"]
            if hasattr(dcfg, "cache_size_limit"):
                dcfg.cache_size_limit = kn["recompile_limit"]
            dcfg.automatic_dynamic_shapes = kn["automatic_dynamic"]
            backend = "inductor" if plan["phase"] == "inductor" else "aot_eager"
            try:
                cfn = torch.compile(built.fn, backend=backend, dynamic=kn["dynamic"], fullgraph=kn["fullgraph"])
            except Exception as e:
                raise Violation("compiles", "torch_compile_raised", f"{type(e).__name__}: {str(e)[:300]}")
            outcomes: List[str] = []
            sigs = set()
            # rms_norm computes its statistics in float32 whatever the input dtype (x.float()):
            # float64 results are then only float32-accurate, in eager as well
            f32_internal = any(a["atom"] == "rms_norm" for a in plan["atoms"]) or \
                plan.get("module", {}).get("type") in ("RMSNorm", "TransformerLayer", "TransformerDecoder")
            last_good: Optional[Dict[str, Any]] = None
            for i, op in enumerate(plan["ops"]):
                k = op["op"]
                where = f"op#{i} {k} callable {sig} knobs {kn}"
                if k == "reset":
                    torch._dynamo.reset()
                    fault("dynamo.reset", True)
                    outcomes.append("reset")
                    res["opseq"].append("reset")
                    continue
                if k == "set_attr":
                    if built.module is None:
                        continue
                    cands = []
                    for mn, sm in built.module.named_modules():
                        for an in ("mult", "constraint", "is_causal"):
                            if an in vars(sm):
                                cands.append((sm, an, mn))
                    if not cands:
                        continue
                    # one attribute (i odd) or every hyper-parameter attribute of the module tree
                    chosen = [cands[op["i"] % len(cands)]] if op["i"] % 2 else cands
                    for ci, (sm, an, mn) in enumerate(chosen):
                        new = {"mult": [0.5, 1.0, 2.0, 4.0], "is_causal": [True, False],
                               "constraint": [None, "to_output_scale", "gmean", "to_grad_input_scale"]}[an]
                        setattr(sm, an, new[(op["v"] + ci) % len(new)])
                    probe("module_attribute_changes", len(chosen))
                    res["opseq"].append("set_attr:" + (chosen[0][1] if len(chosen) == 1 else "all"))
                    continue
                if k == "bad_call":
                    if last_good is None:
                        continue
                    bad = built.make_args(last_good)
                    t0 = bad[0]
                    bad[0] = torch.randn(*(list(t0.shape) + [2])) if t0.is_floating_point() else t0.to(torch.float32)
                    if len(bad) > 1 and bad[1].is_floating_point() and bad[1].dim() >= 1:
                        bad[1] = torch.randn(*(list(bad[1].shape[:-1]) + [bad[1].shape[-1] + 1]))
                    e_raised = c_raised = False
                    try:
                        built.fn(*[t.clone() for t in bad])
                    except Exception:
                        e_raised = True
                    try:
                        cfn(*[t.clone() for t in bad])
                    except Exception:
                        c_raised = True
                    fault("call.bad_shape", e_raised)
                    if e_raised != c_raised:
                        res["notes"].append("failing call: eager and compiled disagree on raising (not demanded)")
                    op = dict(last_good, op="call")  # bounded liveness: the next good call is right
                    where += " (first call after the failed one)"
                    res["opseq"].append("bad_call")
                args = built.make_args(op)
                nc = bool(op.get("noncontig"))
                if nc:
                    probe("noncontiguous_inputs")
                al = bool(op.get("alias"))
                ea = _prep(args, op["mask"], op["mode"], nc, al)
                try:
                    want = _call(built.fn, built.module, ea, op["mode"], op["tseed"] % 1000)
                except Exception as e:
                    res["notes"].append("call fails in eager too: serves as a fault only")
                    fault("call.eager_fails", True)
                    continue
                before = (counters["stats"]["unique_graphs"], counters["frames"]["total"], counters["frames"]["ok"])
                ca = _prep(args, op["mask"], op["mode"], nc, al)
                try:
                    got = _call(cfn, built.module, ca, op["mode"], op["tseed"] % 1000)
                except Exception as e:
                    if type(e).__name__ == "FailOnRecompileLimitHit":
                        # torch's documented behaviour under fullgraph=True once the recompile limit
                        # is reached (instead of the eager fallback): nothing the library decides
                        outcomes.append("limit_hard_fail")
                        probe("outcome:limit_hard_fail")
                        res["notes"].append("recompile limit reached under fullgraph=True: torch raises instead of falling back")
                        continue
                    raise Violation("compiled_runs", _exc_culprit(e, kn),
                                    f"{type(e).__name__}: {str(e)[:600]} {where} call {op}")
                after = (counters["stats"]["unique_graphs"], counters["frames"]["total"], counters["frames"]["ok"])
                if after[0] > before[0]:
                    oc = "compile" if not outcomes or all(o != "compile" for o in outcomes) else "recompile"
                elif after[1] > before[1] and after[2] == before[2]:
                    oc = "limit_fallback"
                else:
                    oc = "hit"
                outcomes.append(oc)
                probe("outcome:" + oc)
                tol_scale = 4.0 if backend == "inductor" else 1.0
                if f32_internal and op["dtype"] == "float64":
                    tol_scale *= TOL["torch.float32"] / TOL["torch.float64"]
                d = None
                if len(got["outs"]) != len(want["outs"]):
                    d = f"output: {len(got['outs'])} outputs vs eager {len(want['outs'])}"
                for j, (x, y) in enumerate(zip(got["outs"], want["outs"])):
                    d = d or _cmp(x, y, f"output[{j}]", tol_scale)
                # the scale for gradients is the largest gradient of the call: a gradient that is
                # pure cancellation noise (true value 0) is not comparable on its own scale
                gscale = 0.0
                for side in (got, want):
                    for ot in side["outs"]:
                        if ot.numel() and ot.is_floating_point():
                            gscale = max(gscale, float(ot.double().abs().max()))  # upstream seeds are O(1)
                    for gt in (side["grads"] or []):
                        if gt is not None and gt.numel():
                            gscale = max(gscale, float(gt.double().abs().max()))
                if d is None and got["req"] != want["req"]:
                    d = f"output.requires_grad {got['req']} vs eager {want['req']}"
                if d is None and (got["grads"] is None) != (want["grads"] is None):
                    d = "gradients present on one side only"
                if d is None and got["grads"] is not None:
                    for j, (x, y) in enumerate(zip(got["grads"], want["grads"])):
                        d = _cmp(x, y, f"grad[{j}]", tol_scale, gscale)
                        if d:
                            break
                low_precision = any(t_.dtype in (torch.bfloat16, torch.float16) for t_ in want["outs"])
                if d and low_precision and ": dtype " not in d and ": shape " not in d:
                    # "agree to float rounding": a compiled graph keeps fused intermediates in
                    # float32 where eager rounds each one to the low-precision dtype; both are then
                    # judged against the same computation in float64
                    if _within_rounding_of_reference(built, args, op, got, want):
                        probe("low_precision_judged_against_float64_reference")
                        d = None
                if d and backend == "inductor" and plan.get("tail") and not d.startswith("output"):
                    raise Violation("eager_equals_compiled", "inductor_aliased_outputs_lose_backward_scale",
                                    f"{d} after outcome {oc} (history {outcomes}) {where} call {op}")
                if d:
                    raise Violation("eager_equals_compiled", "output_mismatch" if d.startswith("output") else "gradient_mismatch",
                                    f"{d} after outcome {oc} (history {outcomes}) {where} call {op}")
                sigs.add((tuple(op["batch"]), op["D"], op["dtype"], op["mode"]))
                last_good = op
                log.add("call", op["batch"], op["D"], op["dtype"], op["mode"], oc,
                        core.tensor_digest([want["out"], want["grads"]]))
                probe("calls_compared")
                probe("dtype:" + op["dtype"])
                res["opseq"].append(f"call:{oc}:{op['dtype']}:{op['mode']}")
            states.append(f"{plan['kind']}|{backend}|lim{kn['recompile_limit']}|ad{kn['automatic_dynamic']}|dyn{kn['dynamic']}|" +
                          ">".join(outcomes))
            res["nontrivial"] = len(sigs) >= 2
    except Violation as v:
        res["violation"] = v.as_dict()
    finally:
        try:
            dcfg.recompile_limit = 8
            dcfg.automatic_dynamic_shapes = True
        except Exception:
            pass
    res["digest"] = log.digest()
    res["steps"] = log.steps
    res["faults"] = faults
    res["probes"] = probes
    res["states"] = sorted(set(states))
    return res


def _exc_culprit(e: BaseException, knobs: Optional[Dict[str, Any]] = None) -> str:
    if "Guard failed on the same frame it was created" in str(e):
        return "call_raised:dynamo_float_guard_on_symbolic_scale"
    if type(e).__name__ == "InductorError" and "cannot determine truth value of Relational" in str(e):
        return "call_raised:inductor_symbolic_relational"
    if knobs and knobs.get("dynamic") is True and type(e).__name__ in ("AssertionError", "InternalTorchDynamoError"):
        return "call_raised:dynamic_true_symbolic_scale"
    return "call_raised:" + type(e).__name__


def _fx_phase(plan: Dict[str, Any], built: Built, res: Dict[str, Any], log: Any, probe: Any, states: List[str],
              sig: str) -> None:
    """fx.symbolic_trace + GraphModule execution reproduces forward values; the library's
    leaf-wrapping tracer (unit_scaling.functional auto-wrapped) also reproduces gradients."""
    import torch
    from torch import fx, nn
    from unit_scaling.utils import _DeepTracer

    calls = [op for op in plan["ops"] if op["op"] == "call"][:3]
    if not calls:
        return
    root: Any = built.module
    if root is None:
        class Wrap(nn.Module):
            def forward(self, *ts: Any) -> Any:
                return built.fn(*ts)

        n = len(built.make_args(calls[0]))

        class WrapN(nn.Module):
            pass

        # fixed arity forward (fx cannot trace *args)
        src = "def forward(self, " + ", ".join(f"a{i}" for i in range(n)) + "):\n    return self._f(" + \
            ", ".join(f"a{i}" for i in range(n)) + ")\n"
        ns: Dict[str, Any] = {}
        exec(src, ns)
        WrapN.forward = ns["forward"]  # type: ignore[assignment]
        root = WrapN()
        root._f = built.fn
    states.append("fx|" + plan["kind"])
    # 1. plain symbolic trace: forward values (first call's shapes are baked in by design)
    op = calls[0]
    args = built.make_args(op)
    if plan.get("tail"):
        return  # several outputs: the fx phases compare single-output callables only
    with torch.no_grad():
        try:
            want = built.fn(*[t.clone() for t in args])
        except Exception:
            return
    try:
        gm = fx.symbolic_trace(root)
        plain_ok = True
    except Exception as e:
        res["notes"].append("plain fx.symbolic_trace: not traceable (" + type(e).__name__ + ")")
        plain_ok = False
    if plain_ok:
        try:
            with torch.no_grad():
                got = gm(*[t.clone() for t in args])
        except Exception as e:
            raise Violation("fx_forward", "graphmodule_raised", f"{type(e).__name__}: {str(e)[:300]} callable {sig}")
        d = _cmp(got, want, "fx forward")
        if d:
            raise Violation("fx_forward", "forward_value_mismatch", f"{d} callable {sig} call {op}")
        probe("fx_plain_compared")
        res["nontrivial"] = True
    # 2. the library's leaf-wrapping tracer: forward and gradients, on every call signature
    # (it keeps unit_scaling.functional ops as leaves; raw scale_fwd/scale_bwd used directly
    # are outside that claim: their backward factor is by design lost in a plain fx graph)
    if any(a["atom"] == "scale" for a in plan.get("atoms", [])):
        return
    try:
        tracer = _DeepTracer()
        graph = tracer.trace(root)
        gm2 = fx.GraphModule(tracer.root, graph)
    except Exception as e:
        res["notes"].append("_DeepTracer: not traceable (" + type(e).__name__ + ")")
        return
    for op in calls:
        args = built.make_args(op)
        ea = _prep(args, op["mask"], "bwd")
        try:
            want2 = _call(built.fn, built.module, ea, "bwd", 7)
        except Exception:
            continue
        ca = _prep(args, op["mask"], "bwd")
        try:
            got2 = _call(gm2, built.module, ca, "bwd", 7)
        except Exception as e:
            res["notes"].append("_DeepTracer graph does not generalise to another call signature (shapes baked in)")
            continue
        d = _cmp(got2["out"], want2["out"], "leaf-traced forward")
        if d is None and got2["grads"] is not None and want2["grads"] is not None:
            for j, (x, y) in enumerate(zip(got2["grads"], want2["grads"])):
                d = _cmp(x, y, f"leaf-traced grad[{j}]")
                if d:
                    break
        if d:
            if op is not calls[0]:
                res["notes"].append("_DeepTracer graph differs on another call signature (shapes baked in)")
                continue
            raise Violation("fx_leaf_tracer", "value_or_gradient_mismatch", f"{d} callable {sig} call {op}")
        probe("fx_leaf_compared")
        log.add("fx", core.tensor_digest(want2["out"]))
    res["opseq"].append("fx")


def neutralise(plan: Dict[str, Any], finding: Dict[str, Any]) -> Optional[Dict[str, Any]]:
    if finding.get("id") == "D15" and plan.get("phase") == "inductor" and plan.get("tail"):
        c = copy.deepcopy(plan)
        c["phase"] = "aot_eager"  # counterfactual: the same callable and history without Inductor code generation
        return c
    if finding.get("id") in ("D14", "D19"):
        c = copy.deepcopy(plan)
        c["knobs"].update(dynamic=False, automatic_dynamic=False)  # counterfactual: static recompiles only
        return c
    if finding.get("id") == "D12" and plan.get("knobs", {}).get("dynamic") is True:
        c = copy.deepcopy(plan)
        c["knobs"]["dynamic"] = None  # counterfactual: let Dynamo decide (automatic dynamic shapes)
        c["phase"] = "aot_eager"
        return c
    return None


def simplify(plan: Dict[str, Any]) -> Iterable[Dict[str, Any]]:
    if len(plan.get("atoms", [])) > 1:
        for j in range(len(plan["atoms"])):
            c = copy.deepcopy(plan)
            del c["atoms"][j]
            yield c
    if plan.get("loss"):
        c = copy.deepcopy(plan)
        del c["loss"]
        yield c
    if plan.get("embed"):
        c = copy.deepcopy(plan)
        del c["embed"]
        yield c
    if plan.get("tail"):
        c = copy.deepcopy(plan)
        del c["tail"]
        yield c
    for i, op in enumerate(plan["ops"]):
        if op["op"] == "call":
            if op["dtype"] != "float32":
                c = copy.deepcopy(plan)
                c["ops"][i]["dtype"] = "float32"
                yield c
            if len(op["batch"]) > 1:
                c = copy.deepcopy(plan)
                c["ops"][i]["batch"] = op["batch"][:1]
                yield c
    kn = plan.get("knobs")
    if kn and (not kn["automatic_dynamic"] or kn["recompile_limit"] != 8 or kn["fullgraph"]):
        c = copy.deepcopy(plan)
        c["knobs"] = {"recompile_limit": 8, "automatic_dynamic": True, "dynamic": kn["dynamic"], "fullgraph": False}
        yield c
