"""Fresh-interpreter side of C09's real restart: load every byte string and check it
against the model that travelled with it.  Prints one JSON line."""

import base64
import io
import json
import pickle
import sys


def main() -> int:
    from simkit import core

    core.bootstrap(need_dynamo=True)
    import torch
    from torch import nn
    from unit_scaling.parameter import has_parameter_data
    import unit_scaling.optim as uo
    from engines import sim_param

    sim_param._holder_classes()
    with open(sys.argv[1]) as f:
        job = json.load(f)
    viol = None

    def bad(inv: str, culprit: str, detail: str) -> None:
        nonlocal viol
        if viol is None:
            viol = {"invariant": inv, "culprit": culprit, "detail": detail}

    for item in job["items"]:
        data = base64.b64decode(item["data"])
        try:
            obj = pickle.loads(data) if job["via"] == "pickle" else torch.load(
                io.BytesIO(data), weights_only=False)
        except Exception as e:
            bad("op_succeeds", f"{job['via']}_load_raised", f"{type(e).__name__}: {e}")
            continue
        named = {"": obj} if item["kind"] == "param" else dict(obj.named_parameters())
        for pm in item["params"]:
            p = named.get(pm["name"])
            if not isinstance(p, nn.Parameter):
                bad("is_parameter", "not_nn_parameter", pm["name"])
                continue
            if not has_parameter_data(p):
                bad("tags_preserved", "has_parameter_data_false", pm["name"])
                continue
            if p.mup_type != pm["tag"]:
                bad("tags_preserved", "mup_type_changed", pm["name"])
            if p.mup_scaling_depth != pm["depth"]:
                bad("tags_preserved", "depth_changed", pm["name"])
            if str(p.dtype) != pm["dtype"] or core.tensor_digest(p) != pm["digest"]:
                bad("values_preserved", "values_differ", pm["name"])
            if p.requires_grad != pm["requires_grad"]:
                bad("trainable_preserved", "requires_grad_changed", pm["name"])
            try:
                got = {}
                for name, fn in (("adam", uo.lr_scale_func_adam),
                                 ("sgd_none", uo.lr_scale_func_sgd(None)),
                                 ("sgd_out", uo.lr_scale_func_sgd("to_output_scale"))):
                    got[name] = float(uo.scaled_parameters([p], fn, lr=1.0)[0]["lr"])
                for name, cls in (("SGD", uo.SGD), ("Adam", uo.Adam), ("AdamW", uo.AdamW)):
                    got[name] = float(cls([p]).param_groups[0]["lr"])
                if got != pm["lr_ref"]:
                    bad("optimizer_accepts", "lr_scale_differs", f"{got} != {pm['lr_ref']}")
            except Exception as e:
                bad("optimizer_accepts", "optimizer_rejects", f"{type(e).__name__}: {e}")
    print(json.dumps({"violation": viol, "items": len(job["items"])}))
    return 0


if __name__ == "__main__":
    sys.exit(main())
