"""sim_unitscale -- C16: unit_scale() equals the hand conversion prescribed by the User Guide.

The function computed by unit_scale(B) depends on what happened earlier in the process
(process-global allow_in_graph registry, Dynamo caches reset on every first call), so the
property has to hold for every interleaving of transform / call operations on the modules
sharing a process: 1-3 generated programs live in one simulated process (a forked child) and a
seeded scheduler interleaves unit_scale / call / failing call / reset operations on them.
Every successful call is compared bitwise, outputs and all gradients, with an independent
recipe interpreter of the same program.
"""

from __future__ import annotations

import copy
from typing import Any, Dict, Iterable, List, Optional, Tuple

from simkit import core
from simkit.core import Violation
from simkit.runner import empty_result

PROPERTY = "C16"
NAME = "sim_unitscale"
NEED_DYNAMO = True
COMPONENTS = {
    "real": ["unit_scaling.transforms.unit_scale / unit_scaling_backend / apply_transform", "unit_scaling.functional (U.* building blocks, torch_map)",
             "TorchDynamo tracing + FX graph execution", "torch autograd"],
    "stub": ["the scheduler that interleaves operations on the modules of one process (seeded)"],
}
ASSUMPTIONS = [
    "the recipe interpreter uses the library's U.* functions as building blocks (their scale factors are C01-C05's business); residual detection, tau choice, rerouting and constraint analysis are its own",
    "generated programs keep the recipe unambiguous: a residual branch only uses values derived from its skip tensor, the skip tensor has no user outside the branch, ops that feed no residual addition come after the last one, additions in the search phases are spelled + / += (the function / method spellings are the recorded finding D21, probed in phase 'known')",
    "weight std after re-initialisation is checked to 1e-6 relative (the library divides by the sample std); biases exactly zero",
    "bitwise comparison: both sides execute the same torch kernels in the same order",
    "seeded search: a clean batch is evidence, not proof",
]
RULE = (
    "per run 1-3 generated programs (1-16+ ops over linear/matmul/gelu/silu/softmax/dropout/layer_norm/embedding/conv1d/attention/"
    "cross_entropy/mse_loss, unmapped ops, tensor+tensor / +scalar / in-place adds, 0-4 well-nested residual blocks whose skip is an "
    "input, a residual output or a plain sum, nn.* wrappers, shared helper functions with user replacements) in one process; ops = "
    "unit_scale(i), call(i,k) fwd+bwd, failing call, dynamo reset in seeded order; non-trivial = >= 1 successful compared call; "
    "distinct = (program op-kind sequences, op order)"
)


def phases(tier: str) -> List[Dict[str, Any]]:
    if tier == "quick":
        return [
            {"name": "single", "runs": 192, "heavy": True, "timeout": 240, "wall": 100},
            {"name": "interleaved", "runs": 160, "heavy": True, "timeout": 240, "wall": 100},
            {"name": "known", "runs": 8, "explicit": True, "timeout": 240, "wall": 60},
        ]
    return [
        {"name": "single", "runs": 5000, "heavy": True, "timeout": 400, "wall": 1500},
        {"name": "interleaved", "runs": 4000, "heavy": True, "timeout": 400, "wall": 1500},
        {"name": "known", "runs": 8, "explicit": True, "timeout": 240, "wall": 120},
    ]


def explicit_plans(tier: str, phase: str) -> List[Dict[str, Any]]:
    """Deterministic probes of the recorded findings D4 (replace key leaks process-wide) and
    D10 (nn.Softmax)."""
    base = {"phase": "known", "timeout": 300, "shrink_budget": 0, "key": 1, "progs": []}
    return [dict(base, ops=[{"op": "replace_leak", "order": "before", "helper": "my_act"}]),
            dict(base, ops=[{"op": "replace_leak", "order": "after", "helper": "my_act"}]),
            dict(base, ops=[{"op": "replace_leak", "order": "after", "helper": "my_act2"}]),
            dict(base, ops=[{"op": "nn_softmax", "dim": -1}]),
            dict(base, ops=[{"op": "nn_softmax", "dim": 1}]),
            dict(base, ops=[{"op": "add_spelling", "form": "add_fn", "residual": True}]),
            dict(base, ops=[{"op": "add_spelling", "form": "add_method", "residual": True}]),
            dict(base, ops=[{"op": "add_spelling", "form": "add_fn", "residual": False}])]


AVOID = ["nn_softmax"]  # shapes of known findings excluded from the search phases, probed in phase "known"


def generate(seed: int, tier: str, phase: str) -> Dict[str, Any]:
    r = core.rng(seed, "workload")
    plan: Dict[str, Any] = {"phase": phase, "timeout": 300, "shrink_budget": 320, "key": r.randrange(1 << 30)}
    if phase == "known":
        plan["progs"] = []
        if r.random() < 0.6:
            plan["ops"] = [{"op": "replace_leak", "order": r.choice(["before", "after"]), "helper": r.choice(["my_act", "my_act2"])}]
        else:
            plan["ops"] = [{"op": "nn_softmax", "dim": r.choice([-1, 1])}]
        return plan
    nmods = 1 if phase == "single" else r.choice([2, 2, 3])
    # one replace decision per helper for the whole process (a helper that is a replace key of
    # one module but not of another is the recorded finding D4, probed in phase "known")
    replace = {}
    if r.random() < 0.6:
        replace["my_act"] = "gelu"
    if r.random() < 0.6:
        replace["my_act2"] = "silu"
    avoid = list(AVOID)
    if r.random() < 0.3:
        replace["F.silu"] = "gelu"  # the key is itself a function with a built-in mapping
        avoid.append("nn_silu")      # (nn.SiLU passes inplace=..., which U.gelu does not take)
    plan["replace"] = replace
    plan["progs"] = [{"pseed": r.randrange(1 << 30),
                      "opts": {"vocab": "unitscale", "depth": [1, r.choice([4, 8, 12])], "avoid": list(avoid)},
                      # a replacement whose key is a torch function (no allow_in_graph involved)
                      # is a per-call argument: other modules of the process do not pass it
                      "use_fn_replace": r.random() < 0.6}
                     for _ in range(nmods)]
    ops: List[Dict[str, Any]] = []
    for i in range(nmods):
        ops.append({"op": "unit_scale", "i": i})
    for i in range(nmods):
        ops.append({"op": "call", "i": i, "k": r.randrange(3), "gseed": r.randrange(4)})
    extra = ["call", "call", "call", "reset", "bad_call", "unit_scale", "fleet"]
    for _ in range(r.choice([0, 1, 2, 3, 4])):
        k = r.choice(extra)
        op: Dict[str, Any] = {"op": k, "i": r.randrange(8)}
        if k == "call":
            op.update(k=r.randrange(3), gseed=r.randrange(4), nograd=r.random() < 0.15)
        if k == "fleet":
            op.update(n=r.choice([9, 11]))
        ops.append(op)
    if phase == "interleaved":
        # seeded schedule: shuffle, keeping each module's unit_scale before its calls
        r.shuffle(ops)
        seen = set()
        fixed: List[Dict[str, Any]] = []
        for op in ops:
            if op["op"] in ("call", "bad_call") and (op["i"] % nmods) not in seen:
                fixed.append({"op": "unit_scale", "i": op["i"] % nmods})
                seen.add(op["i"] % nmods)
            if op["op"] == "unit_scale":
                seen.add(op["i"] % nmods)
            fixed.append(op)
        ops = fixed
    plan["ops"] = ops
    return plan


def _opseq(spec: Dict[str, Any]) -> List[str]:
    return [st["op"] + (":" + st["style"] if "style" in st else "") for st in spec["prog"]]


def execute(plan: Dict[str, Any]) -> Dict[str, Any]:
    import random

    import torch
    import torch._dynamo
    from torch import nn

    from engines import tworld as tw
    from models import proggen, programs

    res = empty_result()
    log = core.EventLog()
    faults: Dict[str, Dict[str, int]] = {}
    probes: Dict[str, int] = {}
    states: List[str] = []

    def fault(kind: str, fired: bool) -> None:
        d = faults.setdefault(kind, {"planned": 0, "fired": 0})
        d["planned"] += 1
        d["fired"] += int(fired)

    def probe(name: str, k: int = 1) -> None:
        probes[name] = probes.get(name, 0) + k

    try:
        if plan["phase"] in ("known", "known_cf"):
            _known(plan, res, log, probe, states)
        else:
            worlds: List[Dict[str, Any]] = []
            for p in plan["progs"]:
                spec = p.get("spec") or proggen.generate(random.Random(p["pseed"]), p["opts"])
                orig = programs.ProgModule(spec)
                rep = {h: t for h, t in plan["replace"].items()
                       if h in spec.get("helpers_used", []) or (
                           h == "F.silu" and p.get("use_fn_replace", True)
                           and any(st["op"] == "silu" or st.get("fn") == "my_act2" for st in spec["prog"]))}
                worlds.append({"spec": spec, "orig": orig, "snap": tw.state_snapshot(orig), "replace": rep,
                               "inputs": [programs.make_inputs(spec, 70 + k) for k in range(3)],
                               "ref": programs.Reference(spec, us=True, replace=rep), "mods": [],
                               "sig": "/".join(_opseq(spec)), "first": {}})
                an = programs.recipe_analysis(spec)
                states.append(f"res={len(an['residual_adds'])}|ops={min(len(spec['prog']) // 4 * 4, 40)}|rep={sorted(rep)}")
                res["opseq"].append("prog:" + worlds[-1]["sig"])
                probe("residual_adds", len(an["residual_adds"]))
                probe("tau_0.01_blocks", sum(1 for a in an["residual_adds"].values() if a["tau"] == 0.01))
                for shp in spec.get("shapes_used", []):
                    probe("shape:" + shp)
            for i, op in enumerate(plan["ops"]):
                k = op["op"]
                where = f"after op#{i} {k}"
                if k == "reset":
                    torch._dynamo.reset()
                    fault("dynamo.reset", True)
                    res["opseq"].append(k)
                    continue
                w = worlds[op["i"] % len(worlds)]
                if k == "unit_scale":
                    if len(w["mods"]) >= 2:
                        continue
                    try:
                        m = tw.apply_transform_by_name(w["orig"], {"T": "unit_scale", "replace": w["replace"]})
                    except Exception as e:
                        raise Violation("runs_without_error", "unit_scale_raised",
                                        f"{type(e).__name__}: {str(e)[:300]} program {w['sig']}")
                    d = tw.state_equal(w["orig"], w["snap"])
                    if d:
                        raise Violation("reinitialisation", "original_modified", f"{d} {where}")
                    _check_init(m, w["orig"], where)
                    d = tw.sharing_diff(w["orig"], m)
                    if d:
                        raise Violation("equals_recipe", "parameter_sharing_changed", f"{d} {where}")
                    w["mods"].append(m)
                elif k == "fleet":
                    # many unit-scaled copies of one module class in one process, each called once
                    for jj in range(op["n"]):
                        fm_ = tw.apply_transform_by_name(w["orig"], {"T": "unit_scale", "replace": w["replace"]})
                        try:
                            got = tw.run(fm_, fm_, tw.clone_inputs(w["inputs"][jj % 3]), 0)
                        except Exception as e:
                            raise Violation("runs_without_error", _exc_culprit(e, w["sig"]),
                                            f"{type(e).__name__}: {str(e)[:300]} {where} fleet member {jj}")
                        want = tw.run(lambda *xs: w["ref"].run(fm_, xs), fm_, tw.clone_inputs(w["inputs"][jj % 3]), 0)
                        d = tw.diff(got, want)
                        if d:
                            raise Violation("equals_recipe", "value_mismatch",
                                            f"{d} {where} fleet member {jj} program {w['sig']}")
                        probe("fleet_members")
                elif k in ("call", "bad_call"):
                    if not w["mods"]:
                        continue
                    m = w["mods"][-1] if k == "bad_call" else w["mods"][op.get("k", 0) % len(w["mods"])]
                    if k == "bad_call":
                        bad = tw.clone_inputs(w["inputs"][0])
                        if bad[0].is_floating_point():
                            bad[0] = torch.randn(*(list(bad[0].shape[:-1]) + [bad[0].shape[-1] + 3]))
                        else:
                            bad[0] = bad[0].to(torch.float32)
                        raised = False
                        try:
                            m(*bad)
                        except Exception:
                            raised = True
                        fault("call.bad_input", raised)
                        kk, gs = 0, 0
                        where += " (first call after the failed one)"
                    else:
                        kk, gs = op["k"], op["gseed"]
                    ng = bool(op.get("nograd")) and k == "call"
                    if ng:
                        probe("calls_under_no_grad")
                    try:
                        got = tw.run(m, m, tw.clone_inputs(w["inputs"][kk]), gs, no_grad=ng)
                    except Exception as e:
                        raise Violation("runs_without_error", _exc_culprit(e, w["sig"]),
                                        f"{type(e).__name__}: {str(e)[:500]} {where} program {w['sig']}")
                    want = tw.run(lambda *xs: w["ref"].run(m, xs), m, tw.clone_inputs(w["inputs"][kk]), gs, no_grad=ng)
                    d = tw.diff(got, want)
                    if d:
                        raise Violation("equals_recipe", _diff_culprit(w["spec"]),
                                        f"{d} {where} program {w['sig']} replace={w['replace']}")
                    dg = tw.result_digest(got)
                    key = (id(m), kk, gs, ng)
                    if key in w["first"] and w["first"][key] != dg:
                        raise Violation("equals_recipe", "result_changed_between_calls", where)
                    w["first"].setdefault(key, dg)
                    log.add("call", op["i"] % len(worlds), kk, gs, dg)
                    probe("calls_compared")
                    res["nontrivial"] = True
                res["opseq"].append(f"{k}@{op['i'] % len(worlds)}")
    except Violation as v:
        res["violation"] = v.as_dict()
    res["digest"] = log.digest()
    res["steps"] = log.steps
    res["faults"] = faults
    res["probes"] = probes
    res["states"] = sorted(set(states))
    return res


def _check_init(m: Any, orig: Any, where: str) -> None:
    import torch
    from torch import nn

    for name, mod in m.named_modules():
        if isinstance(mod, (nn.Linear, nn.Embedding)):
            w = mod.weight
            if w.numel() > 1:
                sd = float(w.detach().std())
                if abs(sd - 1.0) > 1e-5:
                    raise Violation("reinitialisation", "weight_not_unit_variance", f"{name}.weight std {sd} {where}")
            b = getattr(mod, "bias", None)
            if isinstance(b, torch.Tensor) and bool((b != 0).any()):
                raise Violation("reinitialisation", "bias_not_zero", f"{name}.bias {where}")
    # everything that is not a Linear/Embedding weight or bias is carried over unchanged
    lin = {id(p) for mod in m.modules() if isinstance(mod, (nn.Linear, nn.Embedding))
           for p in mod.parameters(recurse=False)}
    osd = orig.state_dict()
    for name, p in m.named_parameters():
        if id(p) not in lin and not torch.equal(p.detach(), osd[name]):
            raise Violation("reinitialisation", "other_parameter_changed", f"{name} {where}")


def _exc_culprit(e: BaseException, sig: str) -> str:
    msg = str(e)
    if "multiple values for argument 'constraint'" in msg:
        return "call_raised:constraint_passed_twice"
    if "_stacklevel" in msg:
        return "call_raised:nn_softmax_stacklevel"
    return "call_raised:" + type(e).__name__


def _diff_culprit(spec: Dict[str, Any]) -> str:
    return "value_mismatch"


def _known(plan: Dict[str, Any], res: Dict[str, Any], log: Any, probe: Any, states: List[str]) -> None:
    """D4: a helper that is a replace key of one unit_scale() stops being unit-scaled inside
    every other transformed module of the process."""
    import torch

    from engines import tworld as tw
    from models import programs
    from models.builder import SpecBuilder

    op = plan["ops"][0]
    if op["op"] in ("nn_softmax", "fn_softmax"):
        b = SpecBuilder(3)
        x = b.inp([3, 4, 6])
        h = b.op("linear", [x], [3, 4, 6], w=b.param([6, 6], 0.4), b=None)
        if op["op"] == "nn_softmax":
            h = b.op("nn_softmax", [h], mod=b.mod("Softmax", dim=op["dim"]))
        else:  # counterfactual: the functional spelling of the same operation
            h = b.op("softmax", [h], dim=op["dim"])
        y = b.op("linear", [h], [3, 4, 4], w=b.param([4, 6], 0.4), b=None)
        spec = b.out(y)
        m0 = programs.ProgModule(spec)
        m = tw.apply_transform_by_name(m0, {"T": "unit_scale"})
        ref = programs.Reference(spec, us=True)
        inp = programs.make_inputs(spec, 3)
        res["opseq"].append(op["op"])
        states.append("known|" + op["op"])
        try:
            got = tw.run(m, m, tw.clone_inputs(inp), 1)
        except Exception as e:
            raise Violation("runs_without_error", _exc_culprit(e, ""), f"{type(e).__name__}: {str(e)[:300]}")
        want = tw.run(lambda *xs: ref.run(m, xs), m, tw.clone_inputs(inp), 1)
        d = tw.diff(got, want)
        if d:
            raise Violation("equals_recipe", "value_mismatch", d)
        return
    if op["op"] == "add_spelling":
        # an addition written as torch.add(a, b) / a.add(b) instead of a + b
        b = SpecBuilder(4)
        x = b.inp([3, 4, 6])
        z = b.inp([3, 4, 6])
        form = op["form"]
        if op["residual"]:
            h = b.op("linear", [x], [3, 4, 6], w=b.param([6, 6], 0.4), b=None)
            y = b.op(form, [x, h])
        else:
            side = b.op("linear", [z], [3, 4, 6], w=b.param([6, 6], 0.4), b=None)
            h = b.op(form, [x, side])
            f = b.op("linear", [h], [3, 4, 6], w=b.param([6, 6], 0.4), b=None)
            y = b.op("add", [h, f])
        spec = b.out(y)
        m = tw.apply_transform_by_name(programs.ProgModule(spec), {"T": "unit_scale"})
        ref = programs.Reference(spec, us=True)
        inp = programs.make_inputs(spec, 3)
        res["opseq"].append(f"add_spelling:{form}:{op['residual']}")
        states.append("known|add_spelling|" + form)
        try:
            got = tw.run(m, m, tw.clone_inputs(inp), 1)
        except Exception as e:
            raise Violation("runs_without_error", _exc_culprit(e, ""), f"{type(e).__name__}: {str(e)[:300]}")
        want = tw.run(lambda *xs: ref.run(m, xs), m, tw.clone_inputs(inp), 1)
        d = tw.diff(got, want)
        if d:
            raise Violation("equals_recipe", "addition_not_spelled_as_operator" if form != "add" else "value_mismatch",
                            f"{d}: {'residual' if op['residual'] else 'plain'} addition written as {form}")
        return
    helper = op["helper"]

    def mk(seed: int) -> Dict[str, Any]:
        b = SpecBuilder(seed)
        x = b.inp([3, 6])
        h = b.op("linear", [x], [3, 6], w=b.param([6, 6], 0.4), b=None)
        h = b.op("helper", [h], fn=helper)
        y = b.op("linear", [h], [3, 4], w=b.param([4, 6], 0.4), b=None)
        return b.out(y)

    specA, specB = mk(1), mk(2)
    A0, B0 = programs.ProgModule(specA), programs.ProgModule(specB)
    target = {"my_act": "gelu", "my_act2": "silu"}[helper]
    refB = programs.Reference(specB, us=True, replace={})
    inp = programs.make_inputs(specB, 3)
    leak = op["op"] == "replace_leak"
    repA = {helper: target} if leak else {}
    if op["order"] == "before":
        tw.apply_transform_by_name(A0, {"T": "unit_scale", "replace": repA})
        B = tw.apply_transform_by_name(B0, {"T": "unit_scale"})
    else:
        B = tw.apply_transform_by_name(B0, {"T": "unit_scale"})
        got0 = tw.run(B, B, tw.clone_inputs(inp), 1)
        want0 = tw.run(lambda *xs: refB.run(B, xs), B, tw.clone_inputs(inp), 1)
        d = tw.diff(got0, want0)
        if d:
            raise Violation("equals_recipe", "value_mismatch", f"before the other unit_scale: {d}")
        A = tw.apply_transform_by_name(A0, {"T": "unit_scale", "replace": repA})
        tw.run(A, A, tw.clone_inputs(programs.make_inputs(specA, 3)), 1)
    got = tw.run(B, B, tw.clone_inputs(inp), 1)
    want = tw.run(lambda *xs: refB.run(B, xs), B, tw.clone_inputs(inp), 1)
    res["opseq"].append(f"{op['op']}:{op['order']}:{helper}")
    states.append("known|" + op["op"] + "|" + op["order"])
    d = tw.diff(got, want)
    if d:
        raise Violation("equals_recipe", "helper_is_replace_key_of_another_module",
                        f"{d}: module B (no replace) after unit_scale(A, replace={{{helper}: U.{target}}}) [{op['order']}]")


def neutralise(plan: Dict[str, Any], finding: Dict[str, Any]) -> Optional[Dict[str, Any]]:
    if plan.get("phase") != "known":
        return None
    op = plan["ops"][0]
    c = copy.deepcopy(plan)
    c["phase"] = "known_cf"
    if finding.get("id") == "D4" and op["op"] == "replace_leak":
        c["ops"] = [dict(op, op="no_replace_in_other_module")]
        return c
    if finding.get("id") == "D21" and op["op"] == "add_spelling":
        c["ops"] = [dict(op, form="add")]
        return c
    if finding.get("id") == "D10" and op["op"] == "nn_softmax":
        c["ops"] = [dict(op, op="fn_softmax")]
        return c
    return None


def simplify(plan: Dict[str, Any]) -> Iterable[Dict[str, Any]]:
    if plan.get("phase") in ("known", "known_cf"):
        return
    if len(plan["progs"]) > 1:
        for j in range(len(plan["progs"])):
            c = copy.deepcopy(plan)
            del c["progs"][j]
            yield c
    import random

    from models import proggen, shrinkspec

    for j, p in enumerate(plan["progs"]):
        base = p.get("spec") or proggen.generate(random.Random(p["pseed"]), p["opts"])
        for cand in shrinkspec.candidates(base):
            c = copy.deepcopy(plan)
            c["progs"][j]["spec"] = cand
            yield c
    for j, p in enumerate(plan["progs"]):
        if p.get("spec"):
            continue
        lo, hi = p["opts"]["depth"]
        for new_hi in (1, 2, 4):
            if new_hi < hi:
                c = copy.deepcopy(plan)
                c["progs"][j]["opts"]["depth"] = [1, new_hi]
                yield c
        for s in range(4):
            c = copy.deepcopy(plan)
            c["progs"][j]["pseed"] = s
            c["progs"][j]["opts"]["depth"] = [1, 2]
            yield c
    if plan.get("replace"):
        c = copy.deepcopy(plan)
        c["replace"] = {}
        yield c
