"""sim_transforms -- C17: transforms are non-destructive and compose in any order.

One simulated process (a forked child) holds a base module and a growing set of derived
modules.  A seeded history of derive / call / call-original / sync / drop operations, with
failing calls, Dynamo resets and first-call interruptions injected, is checked after every
operation:
  I1 original untouched   I2 no shared storage   I3 repeatability   I4 order independence
  I5 agrees with the hand-written twin, each transform applied once, unit scaling first
  I7 a derived module carries the state of the module it was derived from (not an ancestor's)
  I6 recovery after a fault (global patch restored, wrapper restored, next call correct)
"""

from __future__ import annotations

import copy
import gc
from typing import Any, Dict, Iterable, List, Optional, Tuple

from simkit import core
from simkit.core import Violation
from simkit.runner import empty_result

PROPERTY = "C17"
NAME = "sim_transforms"
NEED_DYNAMO = True
COMPONENTS = {
    "real": ["unit_scaling.transforms (apply_transform, unit_scale, simulate_format/fp8, track_scales, compile)",
             "TorchDynamo tracing + FX graph execution", "torch autograd",
             "Inductor (thorough tier, compile chains only)"],
    "stub": ["torch.randint (order-independent keyed PRF, every request logged)",
             "exception injection through sys.settrace line events in transforms/utils.py frames"],
}
ASSUMPTIONS = [
    "TorchDynamo/AOT/Inductor are opaque real components: the simulator controls the operations issued to them, resets them and injects exceptions around them, not their internal scheduling",
    "chains follow the documented constraints: unit_scale at most once, one format simulation at most, track_scales/compile last; unit_scale is not applied to the member that is already built from unit-scaled layers",
    "exceptions are injected at first-visit line events only (an exception at the re-visit of a `with` header would pre-empt __exit__, which only an asynchronous signal can do)",
    "chains ending in compile (Inductor) or track_scales (whose wrappers are value-preserving only to float rounding: recorded finding D13 of property C18) are compared with 2e-5 relative tolerance, or, for programs that amplify rounding noise themselves, against 8x the measured effect of one-ulp perturbations of every intermediate of the hand-written twin; all other chains bitwise",
    "search phases keep at most 8 compiled entries per code object between Dynamo resets (more is the recorded finding D16, probed deterministically in phase 'known')",
    "seeded search: a clean batch is evidence, not proof",
]
RULE = (
    "per run: one family member (mlp, mlp_nn, resblock, attn, uu_block, embed_res; seeded sizes) or a generated program (C16 vocabulary), then 3-12 ops from "
    "{derive (any legal chain order over unit_scale / simulate_fp8 / simulate_format lossless|E5M2-nearest|E4M3-SR|srbits / "
    "track_scales / compile[thorough]), call fwd or fwd+bwd, call_original, sync, perturb (a member's parameters move away from the original's; "
    "whatever is derived from it must start from its state), drop+gc, dynamo reset, failing call "
    "(bad shape / out-of-range index), first-call interruption at line n}; non-trivial = >= 1 derive and >= 1 call; "
    "distinct = (member, op-kind sequence with chains)"
)

MEMBERS = ["mlp", "mlp_nn", "resblock", "attn", "uu_block", "embed_res"]
QUANT = [{"T": "simulate_fp8"}, {"T": "simulate_format", "fmt": "lossless"},
         {"T": "simulate_format", "fmt": "e5m2rn"}, {"T": "simulate_format", "fmt": "e4m3sr"},
         {"T": "simulate_format", "fmt": "e4m3sr4"}, {"T": "simulate_format", "fmt": "e3m2rn_e2m1sr"}]
MAX_MODULES = 5


def phases(tier: str) -> List[Dict[str, Any]]:
    if tier == "quick":
        return [
            {"name": "nofault", "runs": 128, "heavy": True, "timeout": 240, "wall": 110},
            {"name": "faults", "runs": 128, "heavy": True, "timeout": 240, "wall": 110},
            {"name": "known", "runs": 2, "explicit": True, "timeout": 240, "wall": 60},
        ]
    return [
        {"name": "nofault", "runs": 3000, "heavy": True, "timeout": 400, "wall": 1500},
        {"name": "faults", "runs": 3000, "heavy": True, "timeout": 400, "wall": 1500},
        {"name": "compile", "runs": 64, "heavy": True, "timeout": 900, "wall": 900},
        {"name": "known", "runs": 2, "explicit": True, "timeout": 240, "wall": 60},
    ]


def explicit_plans(tier: str, phase: str) -> List[Dict[str, Any]]:
    """Deterministic probe of the recorded finding D16: more than 8 live transformed modules of
    one class, all called a second time."""
    plans = []
    for member, T in (("mlp", {"T": "unit_scale"}), ("resblock", {"T": "simulate_format", "fmt": "e5m2rn"})):
        plans.append({"phase": "known", "member": member, "sizes": {"B": 2, "T": 3, "D": 4, "H": 8}, "gen_opts": {},
                      "mseed": 3, "key": 5, "timeout": 300, "shrink_budget": 0,
                      "ops": [{"op": "fleet", "n": 11, "T": [dict(T) for _ in range(11)], "second": 11}]})
    return plans


def neutralise(plan: Dict[str, Any], finding: Dict[str, Any]) -> Optional[Dict[str, Any]]:
    if finding.get("id") == "D16":
        c = copy.deepcopy(plan)
        c["recompile_limit"] = 64  # counterfactual: TorchDynamo's per-code-object limit out of the way
        return c
    return None


# ------------------------------------------------------------------------------------
# generation


def _gen_T(r: Any, allow_compile: bool) -> Dict[str, Any]:
    x = r.random()
    if x < 0.33:
        return {"T": "unit_scale"}
    if x < 0.72:
        return copy.deepcopy(r.choice(QUANT))
    if x < 0.92 or not allow_compile:
        return {"T": "track_scales"}
    return {"T": "compile"}


def generate(seed: int, tier: str, phase: str) -> Dict[str, Any]:
    r = core.rng(seed, "workload")
    member = r.choice(MEMBERS + ["gen", "gen", "gen"])
    sizes = {"B": r.choice([2, 3, 5]), "T": r.choice([3, 4, 6]), "D": r.choice([4, 8, 12]),
             "H": r.choice([8, 16])}
    gen_opts = {"vocab": "unitscale", "depth": [1, r.choice([3, 6, 10])],
                "avoid": ["nn_softmax", "helper_replace", "shared_qkv"]}
    allow_compile = phase == "compile"
    ops: List[Dict[str, Any]] = []
    n = r.choice([3, 4, 5, 6, 8, 10, 12])
    kinds = ["derive", "derive", "derive", "call", "call", "call", "call", "call_original", "sync",
             "drop", "fleet", "toggle_mode", "perturb"]
    if phase == "faults":
        kinds += ["reset", "bad_call", "interrupt", "interrupt", "bad_call"]
    # swarm: random subset of kinds per run, always derive + call
    enabled = {k for k in sorted(set(kinds)) if r.random() < 0.8} | {"derive", "call"}
    kinds = [k for k in kinds if k in enabled]
    if r.random() < 0.3 and member != "uu_block":
        # both orders of the same two transforms in one process (I4)
        qt = copy.deepcopy(r.choice(QUANT))
        ops += [{"op": "derive", "src": 0, "T": {"T": "unit_scale"}}, {"op": "derive", "src": 1, "T": qt},
                {"op": "derive", "src": 0, "T": copy.deepcopy(qt)}, {"op": "derive", "src": 3, "T": {"T": "unit_scale"}},
                {"op": "call", "j": r.choice([1, 3]), "k": r.randrange(3), "bwd": True, "gseed": r.randrange(4)}]
    elif r.random() < 0.3:
        # a derived member is trained / re-loaded, then transformed again: the second-level
        # module must start from the member's state (I7), not from the original's
        ops += [{"op": "derive", "src": 0, "T": _gen_T(r, False)},
                {"op": "perturb", "j": 0, "pseed": r.randrange(1 << 20)},
                {"op": "derive", "src": 1, "T": _gen_T(r, allow_compile)},
                {"op": "call", "j": 1, "k": r.randrange(3), "bwd": True, "gseed": r.randrange(4)}]
    else:
        ops.append({"op": "derive", "src": 0, "T": _gen_T(r, allow_compile)})
    for _ in range(n):
        k = r.choice(kinds)
        op: Dict[str, Any] = {"op": k}
        if k == "derive":
            op.update(src=r.randrange(16), T=_gen_T(r, allow_compile))
        elif k == "call":
            op.update(j=r.randrange(16), k=r.randrange(3), bwd=r.random() < 0.75, gseed=r.randrange(4),
                      nograd=r.random() < 0.15)
        elif k == "call_original":
            op.update(k=r.randrange(3))
        elif k == "sync":
            op.update(dst=r.randrange(16), src=r.randrange(16))
        elif k == "drop":
            op.update(j=r.randrange(16))
        elif k == "perturb":
            op.update(j=r.randrange(16), pseed=r.randrange(1 << 20))
        elif k == "toggle_mode":
            op.update(j=r.randrange(16), train=r.random() < 0.5)
        elif k == "fleet":
            # second round limited to 6 members: more than 8 live modules of one class re-called
            # after a reset is the recorded finding D16 (probed in phase "known")
            op.update(n=r.choice([9, 11]), T=[_gen_T(r, False) for _ in range(11)], second=r.choice([0, 2]))
        elif k == "bad_call":
            op.update(j=r.randrange(16), kind=r.choice(["shape", "index", "dtype"]))
        elif k == "interrupt":
            op.update(j=r.randrange(16), n=r.randrange(1, 16), k=r.randrange(3),
                      fresh=r.random() < 0.7, T=_gen_T(r, False))
        ops.append(op)
    if phase == "compile" and not any(isinstance(o.get("T"), dict) and o["T"].get("T") == "compile" for o in ops):
        ops.insert(1, {"op": "derive", "src": r.randrange(16), "T": {"T": "compile"}})
        ops.append({"op": "call", "j": 15, "k": 0, "bwd": True, "gseed": 0})
    return {"phase": phase, "member": member, "sizes": sizes, "gen_opts": gen_opts, "mseed": r.randrange(1 << 20),
            "key": r.randrange(1 << 30), "ops": ops, "timeout": 300 if phase != "compile" else 900,
            "shrink_budget": 240}


# ------------------------------------------------------------------------------------
# world


class Mod:
    def __init__(self, mod: Any, chain: List[Dict[str, Any]]) -> None:
        self.mod = mod
        self.chain = chain
        self.first: Dict[Tuple[int, bool, int], str] = {}
        self.called = False
        self.perturbed = False


def chain_legal(chain: List[Dict[str, Any]], T: Dict[str, Any], member: str) -> bool:
    names = [t["T"] for t in chain]
    if names and names[-1] in ("track_scales", "compile"):
        return False
    n = T["T"]
    if n == "unit_scale" and ("unit_scale" in names or member == "uu_block"):
        return False
    if n in ("simulate_fp8", "simulate_format") and any(x in ("simulate_fp8", "simulate_format") for x in names):
        return False
    if n == "compile" and any(x in ("simulate_fp8", "simulate_format") for x in names):
        return False  # documented: compile does not support the format-simulation ops
    return True


def expected_state(base: Any, new: Any, T: Dict[str, Any]) -> Dict[str, Any]:
    """State a module derived from `base` by transform T must carry: base's own state (the state
    of the module that was passed in, not of any ancestor), except that unit_scale() divides
    Linear/Embedding weights by their std and zeroes their biases (tied tensors visited per
    owning module, as documented)."""
    import torch
    from torch import nn

    sd = {k: v.detach().clone() for k, v in base.state_dict().items()}
    if T["T"] != "unit_scale":
        return sd
    keys_of: Dict[int, List[str]] = {}
    for k, p in new.named_parameters(remove_duplicate=False):
        keys_of.setdefault(id(p), []).append(k)
    with torch.no_grad():
        for _, mod in new.named_modules():
            if isinstance(mod, (nn.Linear, nn.Embedding)):
                for attr, f in (("weight", lambda v: v / v.std()), ("bias", lambda v: v - v)):
                    p = getattr(mod, attr, None)
                    if isinstance(p, torch.Tensor) and id(p) in keys_of:
                        ks = [k for k in keys_of[id(p)] if k in sd]
                        if ks:
                            val = f(sd[ks[0]])
                            for k in ks:
                                sd[k] = val
    return sd


def chain_key(chain: List[Dict[str, Any]]) -> str:
    return ">".join(t["T"] + (":" + t["fmt"] if "fmt" in t else "") for t in chain) or "plain"


def expected_backend_tags(chain: List[Dict[str, Any]]) -> List[str]:
    tags = []
    for t in chain:
        tags.append({"unit_scale": "us", "simulate_fp8": "q", "simulate_format": "q",
                     "track_scales": "track", "compile": "compile"}[t["T"]])
    if "us" in tags and "q" in tags and tags.index("us") > tags.index("q"):
        tags.remove("us")
        tags.insert(tags.index("q"), "us")
    return tags


def backend_tags(mod: Any) -> List[str]:
    out = []
    for b in getattr(mod, "backends", []):
        qn = getattr(b, "__qualname__", type(b).__qualname__)
        if "unit_scaling_backend" in qn:
            out.append("us")
        elif "quantisation_backend" in qn:
            out.append("q")
        elif "ScaleTrackingBackend" in qn:
            out.append("track")
        elif "TorchCompileInductorWrapper" in qn:
            out.append("compile")
        else:
            out.append("?" + qn)
    return out


def execute(plan: Dict[str, Any]) -> Dict[str, Any]:
    import torch
    import torch._dynamo

    from engines import tworld as tw
    from models import family, programs
    from simkit.seams import InjectedFault, LineFault, PRFRandint

    res = empty_result()
    log = core.EventLog()
    faults: Dict[str, Dict[str, int]] = {}
    probes: Dict[str, int] = {}
    states: List[str] = []

    def fault(kind: str, fired: bool) -> None:
        d = faults.setdefault(kind, {"planned": 0, "fired": 0})
        d["planned"] += 1
        d["fired"] += int(fired)

    def probe(name: str, k: int = 1) -> None:
        probes[name] = probes.get(name, 0) + k

    from torch._dynamo.utils import counters
    import torch._dynamo.config as dcfg

    if plan.get("recompile_limit"):
        dcfg.recompile_limit = plan["recompile_limit"]
        if hasattr(dcfg, "cache_size_limit"):
            dcfg.cache_size_limit = plan["recompile_limit"]
    prf = PRFRandint(plan["key"]).install()
    member = plan["member"]
    if member == "gen":
        # a generated program instead of a fixed family member (same vocabulary as C16,
        # without the shapes of recorded findings)
        import random

        from models import proggen

        spec = plan.get("spec") or proggen.generate(random.Random(plan["mseed"]), plan["gen_opts"])
    else:
        spec = family.build(member, plan["mseed"], **plan["sizes"])
    original = programs.ProgModule(spec)
    inputs = [programs.make_inputs(spec, 100 + k) for k in range(3)]
    snap0 = tw.state_snapshot(original)
    plain_ref = programs.Reference(spec)
    probe0 = tw.run(original, original, tw.clone_inputs(inputs[0]), 1)
    prf.take_log()
    mods: List[Mod] = []
    refs: Dict[str, Any] = {}

    def pick(j: int) -> Optional[Mod]:
        return mods[j % len(mods)] if mods else None

    def check_global(where: str) -> None:
        # I1
        d = tw.state_equal(original, snap0)
        if d:
            raise Violation("I1_original_untouched", "state_changed", f"{d} {where}")
        for n, p in original.named_parameters():
            if p.grad is not None:
                raise Violation("I1_original_untouched", "grad_written", f"{n} {where}")
        now = tw.run(original, original, tw.clone_inputs(inputs[0]), 1)
        prf.take_log()
        d = tw.diff(probe0, now)
        if d:
            raise Violation("I1_original_untouched", "probe_result_changed", f"{d} {where}")
        # I2
        sets = [("original", tw.storages(original))] + [(chain_key(m.chain) + f"#{i}", tw.storages(m.mod))
                                                        for i, m in enumerate(mods)]
        for a in range(len(sets)):
            for b in range(a + 1, len(sets)):
                if sets[a][1] & sets[b][1]:
                    raise Violation("I2_no_shared_storage", "storage_shared",
                                    f"{sets[a][0]} and {sets[b][0]} {where}")
        if not tw.dynamo_patch_restored():
            raise Violation("I6_fault_recovery", "global_patch_left_installed", where)

    def reference_for(m: Mod) -> Any:
        k = chain_key(m.chain)
        if k not in refs:
            mode = tw.chain_mode(m.chain)
            refs[k] = (programs.Reference(spec, us=mode["us"], q=mode["q"], replace=mode["replace"]), mode)
        return refs[k]

    def checked_call(m: Mod, k: int, bwd: bool, gseed: int, where: str, nograd: bool = False) -> Dict[str, Any]:
        ref, mode = reference_for(m)
        prf.take_log()
        wrapper = m.mod.__dict__.get("forward")
        c0 = (counters["frames"]["total"], counters["frames"]["ok"])
        try:
            got = tw.run(m.mod, m.mod, tw.clone_inputs(inputs[k]), gseed, backward=bwd, no_grad=nograd)
        except Exception as e:
            raise Violation("I5_applied_once_in_order", "call_raised",
                            f"{chain_key(m.chain)} on {member}: {type(e).__name__}: {str(e)[:400]} {where}")
        c1 = (counters["frames"]["total"], counters["frames"]["ok"])
        fell_back = (c1[0] - c0[0]) > (c1[1] - c0[1])  # a frame Dynamo gave up on (recompile limit)
        if fell_back:
            probe("dynamo_gave_up_on_a_frame")
        la = sorted(prf.take_log())
        if m.mod.__dict__.get("forward") is not wrapper:
            raise Violation("I6_fault_recovery", "forward_wrapper_replaced", where)
        want = tw.run(lambda *xs: ref.run(m.mod, xs), m.mod, tw.clone_inputs(inputs[k]), gseed, backward=bwd,
                      no_grad=nograd)
        lb = sorted(prf.take_log())
        # Inductor code generation and the tracking wrappers (recorded finding D13, property C18)
        # are value-preserving only to float rounding; everything else is compared bit for bit
        tol = 2e-5 if (mode["compiled"] or any(t_["T"] == "track_scales" for t_ in m.chain)) else None
        d = tw.diff(got, want, tol)
        if d and tol is not None and not tw.diff({"outs": got["outs"]}, {"outs": want["outs"]}, tol) and \
                tw.grads_close_globally(got, want, tol):
            d = None  # a gradient that is pure cancellation noise is compared on the scale of all gradients
        if d and tol is not None and not fell_back:
            # a program that itself amplifies rounding noise (cancellation before a normalisation,
            # say): the difference is judged against the measured effect of one-ulp perturbations
            # of every intermediate of the twin
            mk = lambda j: programs.Reference(spec, us=mode["us"], q=mode["q"], replace=mode["replace"], jitter=j)  # noqa: E731
            if tw.within_rounding_band(got, want, mk, m.mod, inputs[k], gseed, bwd, no_grad=nograd):
                probe("judged_by_rounding_band")
                d = None
            prf.take_log()
        if d:
            raise Violation("I5_applied_once_in_order",
                            "untransformed_after_recompile_limit" if fell_back else "twin_mismatch",
                            f"{chain_key(m.chain)} on {member}: {d} {where}")
        if la != lb and not mode["compiled"]:
            raise Violation("I5_applied_once_in_order", "random_requests_differ",
                            f"{chain_key(m.chain)} on {member}: module requested {la[:4]}.. ({len(la)}), twin {lb[:4]}.. ({len(lb)}) {where}")
        tags, exp = backend_tags(m.mod), expected_backend_tags(m.chain)
        if any(x.startswith("?") for x in tags):
            res["notes"].append("backend objects carry no recognisable names: backend-list check skipped")
        elif tags != exp:
            raise Violation("I5_applied_once_in_order", "backend_list", f"{tags} expected {exp} {where}")
        key = (k, bwd, gseed, nograd)
        dg = tw.result_digest(got)
        if nograd:
            probe("calls_under_no_grad")
        if key in m.first and m.first[key] != dg:
            raise Violation("I3_repeatable", "result_changed_between_calls",
                            f"{chain_key(m.chain)} on {member} input {k} {where}")
        m.first.setdefault(key, dg)
        if m.called:
            probe("repeat_calls")
        m.called = True
        # I4: any live module whose chain is a permutation and whose parameters are equal
        for o in mods:
            if o is m or sorted(chain_key([t]) for t in o.chain) != sorted(chain_key([t]) for t in m.chain):
                continue
            if tw.state_equal(o.mod, tw.state_snapshot(m.mod)) is not None:
                continue
            c2 = (counters["frames"]["total"], counters["frames"]["ok"])
            try:
                other = tw.run(o.mod, o.mod, tw.clone_inputs(inputs[k]), gseed, backward=bwd, no_grad=nograd)
            except Exception as e:
                raise Violation("I5_applied_once_in_order", "call_raised",
                                f"{chain_key(o.chain)}: {type(e).__name__}: {str(e)[:300]} {where}")
            c3 = (counters["frames"]["total"], counters["frames"]["ok"])
            prf.take_log()
            o.called = True
            d = tw.diff(got, other, tol)
            if d and tol is not None and not tw.diff({"outs": got["outs"]}, {"outs": other["outs"]}, tol) and \
                    tw.grads_close_globally(got, other, tol):
                d = None
            if d and (c3[0] - c2[0]) > (c3[1] - c2[1]):
                raise Violation("I5_applied_once_in_order", "untransformed_after_recompile_limit",
                                f"{chain_key(o.chain)} on {member}: {d} {where} (while comparing two modules with the same chain)")
            if d:
                raise Violation("I4_order_independent", "permuted_chains_disagree",
                                f"{chain_key(m.chain)} vs {chain_key(o.chain)}: {d} {where}")
            probe("order_pairs_compared" if chain_key(o.chain) != chain_key(m.chain) else "same_chain_pairs_compared")
        log.add("call", chain_key(m.chain), k, bwd, gseed, dg)
        return got

    try:
        for i, op in enumerate(plan["ops"]):
            k = op["op"]
            where = f"after op#{i} {k}"
            tag = k
            if k == "derive":
                src = None if (not mods or op["src"] % (len(mods) + 1) == 0) else mods[(op["src"] % (len(mods) + 1)) - 1]
                chain = list(src.chain) if src else []
                if not chain_legal(chain, op["T"], member) or len(mods) >= MAX_MODULES:
                    continue
                base = src.mod if src else original
                before = tw.state_snapshot(base)
                try:
                    new = tw.apply_transform_by_name(base, op["T"])
                except Exception as e:
                    raise Violation("I5_applied_once_in_order", "transform_raised",
                                    f"{op['T']} on {chain_key(chain)}: {type(e).__name__}: {str(e)[:300]}")
                if new is base:
                    raise Violation("I1_original_untouched", "same_object_returned", where)
                d = tw.state_equal(base, before)
                if d:
                    raise Violation("I1_original_untouched", "source_of_transform_changed", f"{d} {where}")
                # I7: the new module carries the state of the module it was derived from
                try:
                    exp_sd = expected_state(base, new, op["T"])
                except Exception as e:  # harness problem, not the library's
                    raise RuntimeError(f"expected_state failed: {type(e).__name__}: {e}")
                d = tw.state_equal(new, exp_sd)
                if d:
                    raise Violation("I7_state_carried", "derived_module_state_differs_from_source",
                                    f"{op['T']} on {chain_key(chain)}: {d} {where}")
                d = tw.sharing_diff(base, new)
                if d:
                    raise Violation("I7_state_carried", "parameter_sharing_changed",
                                    f"{op['T']} on {chain_key(chain)}: {d} {where}")
                if src and src.perturbed:
                    probe("derive_from_perturbed_member")
                mods.append(Mod(new, chain + [op["T"]]))
                mods[-1].perturbed = bool(src and src.perturbed)
                tag = "derive:" + chain_key(chain + [op["T"]])
                if src:
                    probe("nested_derive")
            elif k == "call":
                m = pick(op["j"])
                if m is None:
                    continue
                checked_call(m, op["k"], op["bwd"], op["gseed"], where, nograd=bool(op.get("nograd")))
                tag = f"call:{chain_key(m.chain)}:{'nograd' if op.get('nograd') else 'bwd' if op['bwd'] else 'fwd'}"
            elif k == "fleet":
                # many transformed copies of one module class in one process, each called once
                fleet: List[Mod] = []
                for jj in range(op["n"]):
                    T_ = op["T"][jj]
                    if not chain_legal([], T_, member):
                        continue
                    fm_ = Mod(tw.apply_transform_by_name(original, T_), [T_])
                    checked_call(fm_, jj % 3, True, 0, where + f" fleet member {jj}")
                    fleet.append(fm_)
                    probe("fleet_members")
                if op.get("second", 0):
                    # the members stay alive and some of them are called once more
                    for jj, fm_ in enumerate(fleet[: op["second"]]):
                        checked_call(fm_, jj % 3, True, 0, where + f" fleet member {jj}, second round ({len(fleet)} live)")
                    probe("fleet_second_rounds")
            elif k == "toggle_mode":
                # train() / eval() on a transformed module between two calls: the programs use
                # functional dropout with explicit flags, so the function must not change, but the
                # guards on module.training make TorchDynamo recompile
                m = pick(op["j"])
                if m is None:
                    continue
                m.mod.train(op["train"])
                probe("mode_toggles")
            elif k == "call_original":
                got = tw.run(original, original, tw.clone_inputs(inputs[op["k"]]), 2)
                want = tw.run(lambda *xs: plain_ref.run(original, xs), original, tw.clone_inputs(inputs[op["k"]]), 2)
                prf.take_log()
                d = tw.diff(got, want)
                if d:
                    raise Violation("I1_original_untouched", "original_computes_something_else", f"{d} {where}")
            elif k == "sync":
                a, b = pick(op["dst"]), pick(op["src"])
                if a is None or b is None or a is b:
                    continue
                a.mod.load_state_dict(b.mod.state_dict())
                a.first.clear()
                tag = "sync"
            elif k == "perturb":
                # the member's own state moves away from the original's (training, a loaded
                # checkpoint): whatever is derived from it later must start from THIS state
                m = pick(op["j"])
                if m is None:
                    continue
                g = torch.Generator().manual_seed(op["pseed"])
                new_sd = {}
                for kk, v in m.mod.state_dict().items():
                    new_sd[kk] = v + 0.05 * torch.randn(v.shape, generator=g).to(v.dtype) if v.is_floating_point() else v
                m.mod.load_state_dict(new_sd)
                m.first.clear()
                m.perturbed = True
                probe("perturbed_members")
            elif k == "drop":
                m = pick(op["j"])
                if m is None or len(mods) < 2:
                    continue
                mods.remove(m)
                del m
                gc.collect()
            elif k == "reset":
                torch._dynamo.reset()
                fault("dynamo.reset", True)
                for m in mods:
                    if m.called:
                        probe("reset_with_warm_modules")
                        break
            elif k == "bad_call":
                m = pick(op["j"])
                if m is None:
                    continue
                bad = tw.clone_inputs(inputs[0])
                kind = op["kind"]
                if kind == "index":
                    if spec["inputs"][0]["kind"] != "ids":
                        kind = "shape"
                    else:
                        bad[0] = bad[0].clone()
                        bad[0].view(-1)[0] = 10 ** 6
                if kind == "shape":
                    if spec["inputs"][0]["kind"] == "ids":
                        kind = "dtype"
                    else:
                        bad[0] = torch.randn(*(list(bad[0].shape[:-1]) + [bad[0].shape[-1] + 3])).requires_grad_()
                if kind == "dtype":
                    if spec["inputs"][0]["kind"] == "ids":
                        bad[0] = bad[0].to(torch.float32)
                    else:
                        bad[0] = bad[0].detach().to(torch.int64)
                raised = False
                try:
                    m.mod(*bad)
                except Exception:
                    raised = True
                fault("call." + kind, raised)
                prf.take_log()
                if not tw.dynamo_patch_restored():
                    raise Violation("I6_fault_recovery", "global_patch_left_installed", where)
                # bounded liveness: the next fault-free call is correct
                checked_call(m, 0, True, 0, where + " (first call after the failed one)")
                tag = "bad_call:" + kind
            elif k == "interrupt":
                m = pick(op["j"])
                if op.get("fresh") or m is None:
                    src = m
                    chain = list(src.chain) if src else []
                    if chain_legal(chain, op["T"], member) and len(mods) < MAX_MODULES:
                        new = tw.apply_transform_by_name(src.mod if src else original, op["T"])
                        m = Mod(new, chain + [op["T"]])
                        mods.append(m)
                if m is None:
                    continue
                wrapper = m.mod.__dict__.get("forward")
                lf = LineFault(op["n"])
                raised = None
                try:
                    with lf:
                        m.mod(*tw.clone_inputs(inputs[op["k"]]))
                except InjectedFault as e:
                    raised = e
                except Exception as e:
                    if lf.fired:
                        raised = e  # the injected exception may be wrapped by Dynamo
                    else:
                        raise Violation("I5_applied_once_in_order", "call_raised",
                                        f"{chain_key(m.chain)}: {type(e).__name__}: {str(e)[:300]} {where}")
                fault("first_call.interrupt", lf.fired)
                prf.take_log()
                if lf.fired:
                    probe(f"interrupt_site:{lf.site[0]}:{lf.site[1]}")
                    if raised is None:
                        raise Violation("I6_fault_recovery", "injected_exception_swallowed", f"site {lf.site} {where}")
                    if not tw.dynamo_patch_restored():
                        raise Violation("I6_fault_recovery", "global_patch_left_installed", f"site {lf.site} {where}")
                    if m.mod.__dict__.get("forward") is not wrapper:
                        raise Violation("I6_fault_recovery", "forward_wrapper_not_restored", f"site {lf.site} {where}")
                    checked_call(m, op["k"], True, 0, where + f" (first call after interruption at {lf.site})")
                tag = "interrupt"
            else:
                raise ValueError(k)
            res["opseq"].append(tag)
            check_global(where)
            for m in mods:
                states.append(f"{member}|{chain_key(m.chain)}|rerun={getattr(m.mod, 'rerun_transform', None)}|warm={m.called}")
            log.add(tag)
    except Violation as v:
        res["violation"] = v.as_dict()
    finally:
        prf.uninstall()
    res["digest"] = log.digest()
    res["steps"] = log.steps
    res["faults"] = faults
    res["probes"] = probes
    res["states"] = sorted(set(states))
    res["nontrivial"] = any(t.startswith("call:") for t in res["opseq"])
    return res


def simplify(plan: Dict[str, Any]) -> Iterable[Dict[str, Any]]:
    if plan["member"] == "gen":
        import random

        from models import proggen, shrinkspec

        base = plan.get("spec") or proggen.generate(random.Random(plan["mseed"]), plan["gen_opts"])
        for cand in shrinkspec.candidates(base):
            c = copy.deepcopy(plan)
            c["spec"] = cand
            yield c
    if plan["sizes"] != {"B": 2, "T": 3, "D": 4, "H": 8}:
        c = copy.deepcopy(plan)
        c["sizes"] = {"B": 2, "T": 3, "D": 4, "H": 8}
        yield c
    if plan["member"] != "mlp":
        c = copy.deepcopy(plan)
        c["member"] = "mlp"
        yield c
    for i, op in enumerate(plan["ops"]):
        if op["op"] in ("bad_call", "interrupt", "reset", "sync", "drop", "perturb"):
            c = copy.deepcopy(plan)
            c["ops"][i] = {"op": "call", "j": op.get("j", 0), "k": 0, "bwd": True, "gseed": 0}
            yield c
        if op["op"] == "call" and (op["k"] or op["gseed"]):
            c = copy.deepcopy(plan)
            c["ops"][i].update(k=0, gseed=0)
            yield c
