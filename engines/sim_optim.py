"""sim_optim -- C11: parameter groups are preserved; weight decay is lr-independent.

The groups are live dicts holding possibly aliased lr tensors that optimizer steps,
schedulers and the caller keep mutating; aliasing and "never alters the caller's groups"
are only observable through a later in-place mutation.  The simulator contributes the
operation / interference history and the reference model.
"""

from __future__ import annotations

import copy
import math
from typing import Any, Dict, Iterable, List, Optional, Tuple

from simkit import core
from simkit.core import Violation
from simkit.runner import empty_result

PROPERTY = "C11"
NAME = "sim_optim"
NEED_DYNAMO = False
COMPONENTS = {
    "real": ["unit_scaling.optim.scaled_parameters / SGD / Adam / AdamW", "torch.optim.SGD/Adam/AdamW step()",
             "torch.optim.lr_scheduler.LambdaLR (in-place fill_ of tensor lrs)"],
    "stub": ["the caller and the scheduler-side interference are simulated by seeded in-place mutations"],
}
ASSUMPTIONS = [
    "the lr factor the library's lr_scale_func assigns to a parameter is taken as given (that is C10)",
    "zero gradients only, as the property states; SGD momentum > 0 is checked on the first step only (later steps carry momentum of the decay term, which the property does not describe)",
    "groups of untagged parameters (allowed, left unscaled) sharing the caller's lr tensor are logged as an observation: the property's aliasing clause speaks of scaled groups",
    "seeded search: a clean batch is evidence, not proof",
]
RULE = (
    "plans = build (1-6 groups x 1-5 params, dict groups / bare list / generator, float / int / 0-dim tensor / absent lr with values from 3e-10 to 4096, "
    "weight_decay in [0,0.5], extra keys, independent_weight_decay and allow_non_unit_scaling_params flags, via "
    "scaled_parameters+torch optimizer or uu.optim class) followed by 0-6 ops from {step, LambdaLR step, in-place lr "
    "mutation of one result group, caller mutation, rejected build + retry}; non-trivial = >= 2 ops; distinct = "
    "(input form, lr kinds, flags, optimizer, op-kind sequence)"
)

TAGS = ["weight", "bias", "norm", "output"]


def phases(tier: str) -> List[Dict[str, Any]]:
    if tier == "quick":
        return [{"name": "hist", "runs": 24000, "batch": 250, "timeout": 300, "wall": 120}]
    return [{"name": "hist", "runs": 400000, "batch": 1000, "timeout": 1800, "wall": 1500}]


# ------------------------------------------------------------------------------------
# generation


def _gen_param(r: Any, allow_untagged: bool) -> Dict[str, Any]:
    rank = r.choice([1, 2, 2, 3])
    p = {"shape": [r.choice([1, 2, 3, 5]) for _ in range(rank)], "tag": r.choice(TAGS),
         "depth": r.choice([None, None, 1, 7]), "tseed": r.randrange(1 << 30)}
    if allow_untagged and r.random() < 0.3:
        p["tag"] = None
    return p


def _gen_lr(r: Any) -> Any:
    k = r.choice(["float", "float", "tensor", "tensor", "int"])
    v = r.choice([1e-3, 0.01, 0.1, 0.5, 1.0, 2.0, 0.25, 1e-3, 0.1, 1.0, 1e-7, 3e-10, 4096.0])  # "whatever its (positive) learning rate"
    if k == "int":
        return {"kind": "int", "v": r.choice([1, 2])}
    return {"kind": k, "v": v}


def _gen_build(r: Any) -> Dict[str, Any]:
    allow = r.random() < 0.35
    form = r.choice(["groups", "groups", "list", "generator", "group_generator", "mixed", "mixed_generator"])
    via = r.choice(["sp+SGD", "sp+AdamW", "sp+Adam", "sp", "uu.SGD", "uu.AdamW", "uu.Adam"])
    ngroups = r.choice([1, 2, 3, 4, 5, 6])
    glr = _gen_lr(r) if r.random() < 0.8 else None
    shared_tensor = r.random() < 0.4  # several groups hold the very same lr tensor object
    groups = []
    for _ in range(ngroups):
        g: Dict[str, Any] = {"params": [_gen_param(r, allow) for _ in range(r.choice([1, 1, 2, 3, 5]))]}
        if form in ("mixed", "mixed_generator"):
            g["bare"] = r.random() < 0.5  # this entry is passed as bare tensors, the others as dicts
        if form in ("groups", "group_generator", "mixed", "mixed_generator"):
            if glr is None or r.random() < 0.5:
                g["lr"] = "shared" if shared_tensor and r.random() < 0.7 else _gen_lr(r)
            if r.random() < 0.5:
                g["weight_decay"] = r.choice([0, 0.0, 0.01, 0.1, 0.3, 0.5])
            if r.random() < 0.5:
                g["extra"] = r.choice(["betas", "momentum", "eps", "custom"])
            g["params_iter"] = r.random() < 0.25  # {"params": module.parameters(), ...}
        groups.append(g)
    return {
        "op": "build", "form": form, "via": via, "groups": groups, "lr": glr,
        "shared_lr": {"kind": "tensor", "v": r.choice([0.1, 1.0, 0.5])},
        "weight_decay": r.choice([0, 0.0, 0.01, 0.1, 0.25, 0.5]),
        "iwd": r.random() < 0.7, "allow": allow,
        "lr_func": r.choice(["adam", "sgd_none", "sgd_out"]),
        "momentum": r.choice([0, 0, 0.9]),
    }


def generate(seed: int, tier: str, phase: str) -> Dict[str, Any]:
    r = core.rng(seed, "workload")
    ops: List[Dict[str, Any]] = [_gen_build(r)]
    pool = ["step", "step", "sched_step", "sched_mutate", "caller_mutate", "reject", "build"]
    enabled = [p for p in dict.fromkeys(pool) if r.random() < 0.8] or ["step"]
    pool = [p for p in pool if p in enabled]
    for _ in range(r.choice([0, 1, 2, 3, 4, 5, 6])):
        k = r.choice(pool)
        if k == "build":
            ops.append(_gen_build(r))
        elif k == "sched_step":
            ops.append({"op": k, "factor": r.choice([0.5, 0.9, 2.0]), "sched": r.choice(["lambda", "exponential", "step"])})
        elif k == "sched_mutate":
            ops.append({"op": k, "i": r.randrange(64), "how": r.choice(["fill", "mul"]),
                        "v": r.choice([0.5, 2.0, 0.125])})
        elif k == "caller_mutate":
            ops.append({"op": k, "i": r.randrange(64),
                        "how": r.choice(["lr_inplace", "lr_inplace", "set_key", "del_key", "append_param", "global_lr_inplace"])})
        elif k == "reject":
            ops.append({"op": k, "what": r.choice(["untagged", "no_lr", "rank4"]), "pos": r.randrange(64)})
        else:
            ops.append({"op": k})
    return {"phase": phase, "ops": ops, "timeout": 300, "shrink_budget": 400}


# ------------------------------------------------------------------------------------
# world


class World:
    def __init__(self) -> None:
        self.spec: Optional[Dict[str, Any]] = None
        self.caller_groups: Any = None       # what the caller passed (list or None for generators)
        self.caller_snapshot: Any = None
        self.caller_lr_tensors: List[Any] = []
        self.flat_params: List[Any] = []
        self.src_group_of: List[int] = []
        self.result: Any = None               # list of result group dicts (live)
        self.opt: Any = None
        self.sched: Any = None
        self.model: List[Dict[str, Any]] = []  # per result group: lr0, wd, scaled, extra
        self.steps = 0
        self.epoch = 0
        self.sched_factor: Optional[float] = None


def _mk_param(p: Dict[str, Any]) -> Any:
    import torch
    from torch import nn
    import unit_scaling as uu

    g = torch.Generator().manual_seed(p["tseed"])
    data = torch.randn(*p["shape"], generator=g)
    if p["tag"] is None:
        return nn.Parameter(data)
    return uu.Parameter(data, p["tag"], p["depth"])


def _mk_lr(spec: Any) -> Any:
    import torch

    if spec is None:
        return None
    if spec["kind"] == "tensor":
        return torch.tensor(spec["v"], dtype=torch.float32)
    return spec["v"]


_EXTRA = {"betas": ("betas", (0.8, 0.95)), "momentum": ("momentum", 0.0), "eps": ("eps", 1e-6),
          "custom": ("my_tag", "group-a")}


def _snapshot(groups: List[Any]) -> List[Any]:
    import torch

    snap = []
    for g in groups:
        if isinstance(g, dict):
            ent = {}
            for k, v in g.items():
                rec: Dict[str, Any] = {"obj": v}
                if isinstance(v, torch.Tensor):
                    rec["val"] = v.detach().clone()
                    rec["ver"] = v._version
                if k == "params" and isinstance(v, list):
                    rec["items"] = list(v)
                ent[k] = rec
            snap.append(ent)
        else:
            snap.append(g)
    return snap


def _check_caller_unchanged(w: World, where: str) -> None:
    import torch

    if w.caller_groups is None:
        return
    if len(w.caller_groups) != len(w.caller_snapshot):
        raise Violation("caller_groups_unaltered", "group_list_length", where)
    for gi, (g, s) in enumerate(zip(w.caller_groups, w.caller_snapshot)):
        if not isinstance(g, dict):
            if g is not s:
                raise Violation("caller_groups_unaltered", "list_entry_replaced", where)
            continue
        if list(g.keys()) != list(s.keys()):
            raise Violation("caller_groups_unaltered", "keys_changed",
                            f"group {gi}: {list(g.keys())} vs {list(s.keys())} {where}")
        for k, rec in s.items():
            if g[k] is not rec["obj"]:
                raise Violation("caller_groups_unaltered", f"value_replaced:{k if k in ('lr', 'weight_decay', 'params') else 'extra'}",
                                f"group {gi} key {k} {where}")
            if "val" in rec and (not torch.equal(g[k], rec["val"]) or g[k]._version != rec["ver"]):
                raise Violation("caller_groups_unaltered", "lr_tensor_written",
                                f"group {gi} key {k}: {float(g[k])} vs {float(rec['val'])} version {g[k]._version} vs {rec['ver']} {where}")
            if "items" in rec and (len(g[k]) != len(rec["items"]) or any(a is not b for a, b in zip(g[k], rec["items"]))):
                raise Violation("caller_groups_unaltered", "params_list_changed", f"group {gi} {where}")


def _lr_func(name: str) -> Any:
    import unit_scaling.optim as uo

    return {"adam": uo.lr_scale_func_adam, "sgd_none": uo.lr_scale_func_sgd(None),
            "sgd_out": uo.lr_scale_func_sgd("to_output_scale")}[name]


def _storage_key(t: Any) -> Tuple[int, int]:
    return (t.untyped_storage().data_ptr(), t.storage_offset())


def _build(w: World, spec: Dict[str, Any], res: Dict[str, Any], reject: Optional[Dict[str, Any]] = None) -> None:
    """Perform one build.  With `reject`, an offending entry is inserted first, the call
    must raise ValueError and leave the caller's inputs unchanged; then the build is
    retried without it (bounded liveness: progress right after the fault)."""
    import torch
    import unit_scaling.optim as uo
    from unit_scaling.parameter import has_parameter_data

    shared = _mk_lr(spec["shared_lr"])
    via = spec["via"]
    uu_cls = via.startswith("uu.")
    form = spec["form"]
    groups: List[Any] = []
    flat: List[Any] = []
    src: List[int] = []
    any_tensor_lr = False
    for gi, g in enumerate(spec["groups"]):
        ps = [_mk_param(p) for p in g["params"]]
        if not spec["allow"]:
            ps = [p for p in ps if has_parameter_data(p)]
        if not ps:
            continue
        if form in ("groups", "group_generator") or (form in ("mixed", "mixed_generator") and not g.get("bare")):
            d: Dict[str, Any] = {"params": ps}
            if "lr" in g:
                d["lr"] = shared if g["lr"] == "shared" else _mk_lr(g["lr"])
            if "weight_decay" in g:
                d["weight_decay"] = g["weight_decay"]
            if "extra" in g:
                k, v = _EXTRA[g["extra"]]
                if k == "momentum":
                    v = spec["momentum"]
                if not (k == "betas" and "SGD" in via) and not (k == "momentum" and "Adam" in via):
                    d[k] = v
            if isinstance(d.get("lr"), torch.Tensor):
                any_tensor_lr = True
            if g.get("params_iter") and reject is None:
                d["params"] = iter(ps)  # a one-shot iterator, as in {"params": model.parameters()}
            groups.append(d)
            flat += ps
            src += [len(groups) - 1] * len(ps)
        else:
            for p in ps:
                groups.append(p)
                flat.append(p)
                src.append(len(groups) - 1)
    glr = _mk_lr(spec["lr"])
    if isinstance(glr, torch.Tensor):
        any_tensor_lr = True
    if glr is None:
        # every group needs its own lr then
        for d in groups:
            if isinstance(d, dict) and "lr" not in d:
                d["lr"] = 0.5
        if form in ("list", "generator", "mixed", "mixed_generator"):
            glr = 0.5
    if not groups:
        return
    if any_tensor_lr and via != "sp":
        for d in groups:
            if isinstance(d, dict):
                d.setdefault("foreach", False)  # torch: tensor lr needs foreach=False

    injected = None
    if reject is not None:
        pos = reject["pos"] % (len(groups) + 1)
        what = reject["what"]
        import unit_scaling as uu
        from torch import nn

        if what == "untagged":
            bad_p = nn.Parameter(torch.zeros(2, 2))
        elif what == "rank4":
            bad_p = uu.Parameter(torch.zeros(2, 2, 2, 2), "weight")
        else:
            bad_p = uu.Parameter(torch.zeros(2, 2), "weight")
        if what == "no_lr":
            injected = {"params": [bad_p]}  # a group without lr, and no global lr either
        else:
            injected = {"params": [bad_p]} if form in ("groups", "group_generator", "mixed", "mixed_generator") else bad_p
            if isinstance(injected, dict) and glr is None:
                injected["lr"] = 0.5
        groups_bad = groups[:pos] + [injected] + groups[pos:]
        w_tmp = World()
        w_tmp.caller_groups = groups_bad
        w_tmp.caller_snapshot = _snapshot(groups_bad)
        kwargs_bad = dict(weight_decay=spec["weight_decay"], independent_weight_decay=spec["iwd"],
                          allow_non_unit_scaling_params=False)
        raised: Optional[BaseException] = None
        try:
            arg = (x for x in groups_bad) if form in ("generator", "group_generator", "mixed_generator") else groups_bad
            lr_bad = None if what == "no_lr" else glr
            uo.scaled_parameters(arg, _lr_func(spec["lr_func"]), lr=lr_bad, **kwargs_bad)
        except ValueError as e:
            raised = e
        except Exception as e:
            raise Violation("reject", "wrong_exception_type", f"{type(e).__name__}: {e} what={what}")
        d = res["faults"].setdefault("build.reject:" + what, {"planned": 0, "fired": 0})
        d["planned"] += 1
        if raised is None:
            raise Violation("reject", "bad_input_accepted", f"what={what} form={form}")
        d["fired"] += int(raised is not None)
        _check_caller_unchanged(w_tmp, f"after rejected build ({what})")

    # ---- the real build
    w.spec = spec
    w.flat_params = flat
    w.src_group_of = src
    is_gen = form in ("generator", "group_generator", "mixed_generator")
    w.caller_groups = groups
    w.caller_snapshot = _snapshot(groups)
    w.caller_lr_tensors = [t for t in ([glr] + [g.get("lr") for g in groups if isinstance(g, dict)])
                           if isinstance(t, torch.Tensor)]
    glr_snap = (glr.clone(), glr._version) if isinstance(glr, torch.Tensor) else None
    arg = (x for x in groups) if is_gen else groups
    kwargs = dict(weight_decay=spec["weight_decay"], independent_weight_decay=spec["iwd"],
                  allow_non_unit_scaling_params=spec["allow"])
    f = _lr_func(spec["lr_func"])
    w.opt = None
    w.sched = None
    w.steps = 0
    w.epoch = 0
    try:
        if uu_cls:
            cls = getattr(uo, via[3:])
            extra_kw: Dict[str, Any] = {}
            if any_tensor_lr:
                extra_kw["foreach"] = False
            if "SGD" in via:
                extra_kw["momentum"] = spec["momentum"]
                f = uo.lr_scale_func_sgd(None)
            else:
                f = uo.lr_scale_func_adam
            lr_arg = glr if glr is not None else 0.5
            if glr is None:
                glr = lr_arg
            w.opt = cls(arg, lr=lr_arg, **kwargs, **extra_kw)
            result = w.opt.param_groups
        else:
            result = uo.scaled_parameters(arg, f, lr=glr, **kwargs)
            result_pre = [dict(g) for g in result]
            if via != "sp":
                tcls = getattr(torch.optim, via[3:])
                okw: Dict[str, Any] = {}
                if "SGD" in via:
                    okw["momentum"] = spec["momentum"]
                if any_tensor_lr:
                    okw["foreach"] = False
                w.opt = tcls(result, **okw)
                result = w.opt.param_groups
    except Exception as e:
        raise Violation("build_succeeds", "valid_input_rejected",
                        f"{type(e).__name__}: {e} via={via} form={form}")
    w.result = result
    where = f"after build via={via} form={form}"
    _check_caller_unchanged(w, where)
    if glr_snap is not None and (not torch.equal(glr, glr_snap[0]) or glr._version != glr_snap[1]):
        raise Violation("caller_groups_unaltered", "lr_tensor_written", f"global lr tensor {where}")

    # conservation: every parameter exactly once, in order, one per group
    if len(result) != len(flat):
        raise Violation("conservation", "group_count", f"{len(result)} groups for {len(flat)} params {where}")
    w.model = []
    seen_lr_storage: Dict[Tuple[int, int], int] = {}
    caller_keys = {_storage_key(t) for t in w.caller_lr_tensors}
    for i, (rg, p) in enumerate(zip(result, flat)):
        if len(rg["params"]) != 1 or rg["params"][0] is not p:
            raise Violation("conservation", "order_or_identity",
                            f"result group {i} does not hold input parameter {i} {where}")
        sg = groups[src[i]]
        sgd = sg if isinstance(sg, dict) else {}
        for k, v in sgd.items():
            if k in ("params", "lr", "weight_decay"):
                continue
            if k not in rg or rg[k] != v:
                raise Violation("conservation", "extra_key_lost",
                                f"key {k}={v!r} of source group missing/changed in result group {i}: {rg.get(k, '<missing>')!r} {where}")
        lr_g = sgd.get("lr", glr)
        wd_g = sgd.get("weight_decay", spec["weight_decay"])
        scaled = has_parameter_data(p)
        factor = f(p) if scaled else 1.0
        lr_i = rg["lr"]
        if isinstance(lr_g, torch.Tensor):
            want_lr = float(lr_g.clone().mul_(factor)) if scaled else float(lr_g)
            if not isinstance(lr_i, torch.Tensor):
                raise Violation("lr_scaling", "tensor_lr_became_float", f"group {i} {where}")
        else:
            want_lr = lr_g * factor
        if not math.isclose(float(lr_i), want_lr, rel_tol=1e-6 if isinstance(lr_g, torch.Tensor) else 1e-12, abs_tol=0.0):
            raise Violation("lr_scaling", "lr_value", f"group {i}: lr {float(lr_i)!r} expected {want_lr!r} {where}")
        wd_i = rg["weight_decay"]
        if spec["iwd"]:
            if not math.isclose(float(lr_i) * wd_i, wd_g, rel_tol=1e-9, abs_tol=0.0):
                raise Violation("weight_decay", "lr_times_wd_not_requested_decay",
                                f"group {i}: lr {float(lr_i)!r} x wd {wd_i!r} = {float(lr_i) * wd_i!r}, requested {wd_g!r} {where}")
        elif wd_i != wd_g:
            raise Violation("weight_decay", "not_passed_through", f"group {i}: {wd_i!r} vs {wd_g!r} {where}")
        if isinstance(lr_i, torch.Tensor):
            key = _storage_key(lr_i)
            if scaled:
                if key in caller_keys:
                    raise Violation("aliasing", "scaled_lr_aliases_caller_tensor", f"group {i} {where}")
                if key in seen_lr_storage:
                    raise Violation("aliasing", "scaled_lr_shared_between_groups",
                                    f"groups {seen_lr_storage[key]} and {i} {where}")
                seen_lr_storage[key] = i
            elif key in caller_keys:
                res["notes"].append("untagged group shares the caller's lr tensor (not demanded)")
        w.model.append({"lr0": float(lr_i), "lr": float(lr_i), "base": float(lr_i), "pristine": True,
                        "wd": float(wd_i), "wd_req": float(wd_g), "scaled": scaled,
                        "extra": {k: v for k, v in rg.items() if k not in ("params", "lr", "weight_decay")},
                        "tensor": isinstance(lr_i, torch.Tensor)})


def _check_result_stable(w: World, where: str, skip_lr: Optional[int] = None) -> None:
    """Result groups hold what the model says (lr, wd, params, extras)."""
    import torch

    for i, (rg, m) in enumerate(zip(w.result, w.model)):
        if rg["params"][0] is not w.flat_params[i] or len(rg["params"]) != 1:
            raise Violation("result_stable", "params_changed", f"group {i} {where}")
        if i != skip_lr and not math.isclose(float(rg["lr"]), m["lr"], rel_tol=1e-6):
            raise Violation("aliasing", "lr_changed_by_other_party",
                            f"group {i}: lr {float(rg['lr'])!r}, model {m['lr']!r} {where}")
        if float(rg["weight_decay"]) != m["wd"]:
            raise Violation("result_stable", "weight_decay_changed", f"group {i} {where}")
        for k, v in m["extra"].items():
            if k in ("initial_lr",):
                continue
            if k not in rg or (rg[k] != v if not isinstance(v, torch.Tensor) else not torch.equal(rg[k], v)):
                raise Violation("result_stable", "extra_changed", f"group {i} key {k} {where}")


def _refresh_unscaled(w: World) -> None:
    """Groups of untagged parameters are left unscaled and may legitimately share the
    caller's lr tensor (not demanded by the property): their model lr follows the tensor and
    the caller snapshot is re-taken when such a shared tensor was written."""
    import torch

    caller_keys = {_storage_key(t) for t in w.caller_lr_tensors}
    shared = False
    for rg, m in zip(w.result, w.model):
        if not m["scaled"] and isinstance(rg["lr"], torch.Tensor):
            m["lr"] = float(rg["lr"])
            m["pristine"] = False
            shared = shared or _storage_key(rg["lr"]) in caller_keys
    if shared:
        w.caller_snapshot = _snapshot(w.caller_groups)


def execute(plan: Dict[str, Any]) -> Dict[str, Any]:
    import torch

    res = empty_result()
    log = core.EventLog()
    w = World()
    states: List[str] = []
    probes: Dict[str, int] = {}

    def probe(name: str, k: int = 1) -> None:
        probes[name] = probes.get(name, 0) + k

    def record(tag: str) -> None:
        if w.result is None:
            log.add(tag)
            return
        log.add(tag, [[float(g["lr"]), float(g["weight_decay"]), core.tensor_digest(g["params"][0])]
                      for g in w.result])

    try:
        for i, op in enumerate(plan["ops"]):
            k = op["op"]
            where = f"after op#{i} {k}"
            if k == "build":
                _build(w, op, res)
                if w.result is None:
                    continue
                kinds = sorted({("T" if m["tensor"] else "F") for m in w.model})
                states.append(f"{op['form']}|{op['via']}|iwd={op['iwd']}|allow={op['allow']}|lr={''.join(kinds)}")
                res["opseq"].append(f"build:{op['form']}:{op['via']}")
                if len({id(g.get('lr')) for g in w.caller_groups if isinstance(g, dict) and isinstance(g.get('lr'), torch.Tensor)}) < \
                        len([1 for g in w.caller_groups if isinstance(g, dict) and isinstance(g.get('lr'), torch.Tensor)]):
                    probe("shared_tensor_lr_between_caller_groups")
                record(k)
                continue
            if k == "reject":
                if w.spec is None:
                    continue
                spec = copy.deepcopy(w.spec)
                _build(w, spec, res, reject=op)
                res["opseq"].append("reject:" + op["what"])
                record(k)
                continue
            if w.result is None:
                continue
            if k == "step":
                if w.opt is None:
                    continue
                via = w.spec["via"]
                before = [p.detach().clone() for p in w.flat_params]
                for p in w.flat_params:
                    p.grad = torch.zeros_like(p)
                w.opt.step()
                w.steps += 1
                checkable = ("SGD" in via and (w.spec["momentum"] == 0 or w.steps == 1)) or "AdamW" in via
                if "SGD" in via and any(m["extra"].get("momentum", w.spec["momentum"]) != 0 for m in w.model) and w.steps > 1:
                    checkable = False
                if checkable:
                    for j, (p, b, m, rg) in enumerate(zip(w.flat_params, before, w.model, w.result)):
                        lr_now = float(rg["lr"])
                        mult = 1.0 - lr_now * m["wd"]
                        exp = b.double() * mult
                        # float32 rounding of (1 - lr*wd) and of the product, relative to the
                        # larger of |p| and |lr*wd*p| (lr*wd may exceed 1 after a scheduler edit)
                        tol = 4 * 2.0 ** -23 * b.double().abs() * (1.0 + abs(lr_now * m["wd"])) + 1e-30
                        if not bool(((p.detach().double() - exp).abs() <= tol).all()):
                            raise Violation("decay_step", "param_not_multiplied_by_one_minus_decay",
                                            f"group {j} via={via} lr={lr_now!r} wd={m['wd']!r} mult={mult!r} {where}")
                        if w.spec["iwd"] and m["pristine"]:
                            wd_req = m["wd_req"]
                            exp2 = b.double() * (1.0 - wd_req)
                            tol2 = 8 * 2.0 ** -23 * b.double().abs() + 1e-30
                            if not bool(((p.detach().double() - exp2).abs() <= tol2).all()):
                                raise Violation("decay_step", "decay_depends_on_lr",
                                                f"group {j} via={via} requested decay {wd_req!r}, lr {lr_now!r} {where}")
                    probe("steps_checked")
                else:
                    probe("steps_unchecked")
                _check_result_stable(w, where)
                _check_caller_unchanged(w, where)
            elif k == "sched_step":
                if w.opt is None:
                    continue
                if w.sched is None:
                    fct = op["factor"]
                    w.sched_factor = fct
                    kind_ = op.get("sched", "lambda")
                    if kind_ == "exponential":  # chainable form: lr <- lr * gamma each step
                        w.sched = torch.optim.lr_scheduler.ExponentialLR(w.opt, gamma=fct)
                    elif kind_ == "step":
                        w.sched = torch.optim.lr_scheduler.StepLR(w.opt, step_size=1, gamma=fct)
                    else:
                        w.sched = torch.optim.lr_scheduler.LambdaLR(w.opt, lambda e, fct=fct: fct ** e)
                    w.sched_kind = kind_
                    probe("scheduler:" + kind_)
                    for m, rg in zip(w.model, w.result):
                        m["extra"] = {kk: vv for kk, vv in rg.items() if kk not in ("params", "lr", "weight_decay")}
                        m["base"] = float(rg["lr"])
                for p in w.flat_params:
                    p.grad = None
                w.epoch += 1
                import warnings

                with warnings.catch_warnings():
                    warnings.simplefilter("ignore")
                    w.sched.step()
                for m in w.model:
                    if getattr(w, "sched_kind", "lambda") == "lambda":
                        m["lr"] = m["base"] * (w.sched_factor ** w.epoch)  # closed form from the base lr
                    else:
                        m["lr"] = m["lr"] * w.sched_factor  # chainable form: from the current lr
                    m["pristine"] = False
                _refresh_unscaled(w)
                _check_result_stable(w, where)
                _check_caller_unchanged(w, where)
                probe("scheduler_steps")
            elif k == "sched_mutate":
                idx = op["i"] % len(w.result)
                lr = w.result[idx]["lr"]
                if not isinstance(lr, torch.Tensor):
                    continue
                if op["how"] == "fill":
                    lr.fill_(op["v"])
                else:
                    lr.mul_(op["v"])
                w.model[idx]["lr"] = float(lr)
                w.model[idx]["pristine"] = False  # no longer the build-time lr
                _refresh_unscaled(w)
                _check_result_stable(w, where)
                _check_caller_unchanged(w, where)
                probe("inplace_lr_mutations")
            elif k == "caller_mutate":
                dicts = [g for g in w.caller_groups if isinstance(g, dict)]
                how = op["how"]
                if how == "global_lr_inplace":
                    ts = [t for t in w.caller_lr_tensors]
                    if not ts:
                        continue
                    t = ts[op["i"] % len(ts)]
                    t.mul_(3.0)
                elif not dicts:
                    continue
                else:
                    g = dicts[op["i"] % len(dicts)]
                    if how == "lr_inplace":
                        if not isinstance(g.get("lr"), torch.Tensor):
                            continue
                        g["lr"].mul_(3.0)
                    elif how == "set_key":
                        g["weight_decay"] = 0.123
                        g["betas"] = (0.1, 0.2)
                    elif how == "del_key":
                        for kk in list(g.keys()):
                            if kk != "params":
                                del g[kk]
                    elif how == "append_param":
                        if isinstance(g["params"], list):
                            g["params"].append(torch.nn.Parameter(torch.zeros(1)))
                _refresh_unscaled(w)
                _check_result_stable(w, where)
                w.caller_snapshot = _snapshot(w.caller_groups)
                probe("caller_mutations")
            else:
                raise ValueError(k)
            res["opseq"].append(k if k != "caller_mutate" else k + ":" + op["how"])
            record(k)
    except Violation as v:
        res["violation"] = v.as_dict()
    res["digest"] = log.digest()
    res["steps"] = log.steps
    res["probes"] = probes
    res["states"] = sorted(set(states))
    return res


def simplify(plan: Dict[str, Any]) -> Iterable[Dict[str, Any]]:
    for i, op in enumerate(plan["ops"]):
        if op["op"] != "build":
            continue
        if len(op["groups"]) > 1:
            for j in range(len(op["groups"])):
                c = copy.deepcopy(plan)
                del c["ops"][i]["groups"][j]
                yield c
        for j, g in enumerate(op["groups"]):
            if len(g["params"]) > 1:
                for q in range(len(g["params"])):
                    c = copy.deepcopy(plan)
                    del c["ops"][i]["groups"][j]["params"][q]
                    yield c
            for key in ("extra", "weight_decay", "lr"):
                if key in g:
                    c = copy.deepcopy(plan)
                    del c["ops"][i]["groups"][j][key]
                    yield c
        if op["form"] != "groups":
            c = copy.deepcopy(plan)
            c["ops"][i]["form"] = "groups"
            yield c
        if op["via"] not in ("sp",):
            c = copy.deepcopy(plan)
            c["ops"][i]["via"] = "sp"
            yield c
