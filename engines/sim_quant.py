"""sim_quant -- C15: format simulation = straight-through quantisation exactly at matmul
boundaries, with the value set, rounding mode and random-bit count the caller supplied.

Two facets need the simulator: (i) the random source is a seam (order-independent keyed PRF,
every request logged), so rounding mode / srbits of the inserted quantisers are *observed*;
(ii) the rewrite happens lazily inside process-global Dynamo state, so the property has to
hold on repeated calls, after resets, after failing calls and next to other transformed
modules.  The per-call verdict is a bitwise comparison with a hand-quantised reference
interpreter of the same program.
"""

from __future__ import annotations

import copy
from typing import Any, Dict, Iterable, List, Optional, Tuple

from simkit import core
from simkit.core import Violation
from simkit.runner import empty_result

PROPERTY = "C15"
NAME = "sim_quant"
NEED_DYNAMO = True
COMPONENTS = {
    "real": ["unit_scaling.transforms.simulate_format / simulate_fp8, _quantisation_backend, replace_node_with_function",
             "unit_scaling.formats.FPFormat.quantise_fwd / quantise_bwd / quantise",
             "TorchDynamo tracing + FX graph execution (phase dynamo)", "torch.fx symbolic tracing (phase direct: graphs built without Dynamo)",
             "torch autograd"],
    "stub": ["torch.randint (order-independent keyed PRF; requests logged and compared with the reference's)"],
}
ASSUMPTIONS = [
    "the reference quantiser is FPFormat.quantise of the caller's format (its value set is C13/C14's business); the straight-through wrappers, operand selection and gradient placement are the reference's own",
    "linear_readout / matmul / conv1d are not 'linear or attention operations' of the statement: the reference leaves them untouched",
    "bitwise comparison: implementation and reference execute the same torch kernels in the same order",
    "seeded search: a clean batch is evidence, not proof",
]
RULE = (
    "phase dynamo: generated program (depth 1-12 over linear pos/kw/no-bias/nn.Linear/U.linear/uu.Linear, attention "
    "plain/causal/mask kw|positional/dropout_p=0/scale= keyword (alone and after positional extras)/U form, elementwise, norms, adds, reshapes; rank 2-4 inputs) x format pair "
    "(E8M23 lossless, E4M3, E5M2, E3M2, E2M1, E5M10, E8M7 x nearest | stochastic srbits default/1/4) x history "
    "(simulate_format|simulate_fp8, 2-3 calls incl. calls under no_grad and calls with frozen parameter subsets / inputs without gradient, resets, failing calls, neighbour module); phase direct: the backend from "
    "module.backends applied to an FX graph traced without Dynamo; phase isolation: quantise_fwd/bwd alone. "
    "non-trivial = program with >= 1 linear/attention op and >= 1 call; distinct = (op-kind sequence of the program, formats, history kinds)"
)

BASE_FORMATS = [[8, 23], [4, 3], [5, 2], [3, 2], [2, 1], [5, 10], [8, 7]]


def phases(tier: str) -> List[Dict[str, Any]]:
    if tier == "quick":
        return [
            {"name": "isolation", "runs": 400, "batch": 25, "timeout": 300, "wall": 60},
            {"name": "direct", "runs": 480, "batch": 10, "timeout": 300, "wall": 100},
            {"name": "dynamo", "runs": 256, "heavy": True, "timeout": 240, "wall": 110},
            {"name": "known", "runs": 4, "explicit": True, "timeout": 240, "wall": 60},
        ]
    return [
        {"name": "isolation", "runs": 20000, "batch": 200, "timeout": 900, "wall": 600},
        {"name": "direct", "runs": 20000, "batch": 50, "timeout": 900, "wall": 900},
        {"name": "dynamo", "runs": 6000, "heavy": True, "timeout": 400, "wall": 1800},
        {"name": "known", "runs": 4, "explicit": True, "timeout": 240, "wall": 120},
    ]


def explicit_plans(tier: str, phase: str) -> List[Dict[str, Any]]:
    """Deterministic probes of the recorded findings D7 (root is a torch.nn layer) and D9
    (lossless gradients equal only to rounding)."""
    base = {"phase": "known", "timeout": 300, "shrink_budget": 0, "key": 12345, "pseed": 7,
            "fwd": [4, 3, "nearest", 0], "bwd": [5, 2, "nearest", 0], "use_fp8": False,
            "opts": {"vocab": "quant", "depth": [1, 2], "avoid": []}}
    return [dict(base, ops=[{"op": "nn_root", "kind": "linear"}]),
            dict(base, ops=[{"op": "nn_root", "kind": "sequential"}]),
            dict(base, ops=[{"op": "shared_qkv", "style": "plain", "shape": [2, 3, 8]}]),
            dict(base, ops=[{"op": "shared_qkv", "style": "causal", "shape": [2, 4, 8]}])]


def _gen_fmt(r: Any) -> List[Any]:
    E, M = r.choice(BASE_FORMATS)
    if r.random() < 0.45:
        return [E, M, "nearest", 0]
    return [E, M, "stochastic", r.choice([0, 0, 1, 4]) if M < 19 else 0]


# shapes of known findings: excluded from the search phases, probed in phase "known"
KNOWN_SHAPES = ["nn_root"]


def generate(seed: int, tier: str, phase: str) -> Dict[str, Any]:
    r = core.rng(seed, "workload")
    plan: Dict[str, Any] = {"phase": phase, "timeout": 300, "shrink_budget": 320, "key": r.randrange(1 << 30)}
    if phase == "isolation":
        ops_: List[Dict[str, Any]] = []
        for _ in range(r.choice([1, 2, 3])):
            f = _gen_fmt(r)
            if ops_ and r.random() < 0.5 and ops_[-1]["fmt"][2] == "stochastic":
                p = ops_[-1]["fmt"]  # same (E, M, rounding), another random-bit count
                f = p[:3] + [r.choice([x for x in (0, 1, 2, 4, 6) if x != p[3]])]
            ops_.append({"op": "iso", "fmt": f, "shape": [r.choice([1, 3, 8]) for _ in range(r.choice([1, 2, 3]))],
                         "tseed": r.randrange(1 << 30), "scale": r.choice([1e-3, 1.0, 30.0, 1e4])})
        plan["ops"] = ops_
        return plan
    lossless = r.random() < 0.25
    fwd = [8, 23, "nearest", 0] if lossless else _gen_fmt(r)
    bwd = [8, 23, "nearest", 0] if lossless else _gen_fmt(r)
    use_fp8 = (not lossless) and r.random() < 0.15
    if use_fp8:
        fwd, bwd = [4, 3, "stochastic", 0], [5, 2, "stochastic", 0]
    plan.update(pseed=r.randrange(1 << 30), fwd=fwd, bwd=bwd, use_fp8=use_fp8,
                opts={"vocab": "quant", "depth": [1, 12], "avoid": ["shared_qkv"]})
    # history: other formats with the same (E, M, rounding) but another random-bit count were
    # used earlier in this process (anything the library caches per format is shared state)
    pre = []
    for f in (fwd, bwd):
        if f[2] == "stochastic" and r.random() < 0.5:
            pre.append(f[:2] + ["stochastic", r.choice([x for x in (0, 1, 2, 4, 6) if x != f[3]])])
    plan["pre_formats"] = pre
    if phase == "dynamo" and r.random() < 0.2:
        # the format simulation applied on top of unit_scale(): the reference is the recipe
        # conversion with hand-inserted quantisation (shapes of C16's recorded findings and
        # already unit-scaled ops are kept out of these programs)
        plan["pre_unit_scale"] = True
        plan["opts"]["avoid"] = plan["opts"]["avoid"] + ["nn_softmax", "u_forms", "sdpa_scale", "wexpr"]
    if phase == "known":
        if r.random() < 0.5:
            plan["ops"] = [{"op": "nn_root", "kind": r.choice(["linear", "sequential"])}]
        else:
            plan["ops"] = [{"op": "shared_qkv", "style": r.choice(["plain", "causal"]), "shape": [2, r.choice([3, 4]), r.choice([4, 8])]}]
        return plan
    if phase == "direct":
        plan["ops"] = [{"op": "direct", "k": r.randrange(3), "gseed": r.randrange(4)} for _ in range(r.choice([1, 2]))]
        return plan
    ops: List[Dict[str, Any]] = [{"op": "transform"}]
    kinds = ["call", "call", "call", "reset", "bad_call", "neighbour", "transform", "fleet", "call_frozen"]
    enabled = {k for k in sorted(set(kinds)) if r.random() < 0.75} | {"call"}
    kinds = [k for k in kinds if k in enabled]
    ops.append({"op": "call", "j": 0, "k": r.randrange(3), "gseed": r.randrange(4), "bwd": True})
    for _ in range(r.choice([1, 2, 3, 4, 5])):
        k = r.choice(kinds)
        op: Dict[str, Any] = {"op": k}
        if k == "call":
            op.update(j=r.randrange(8), k=r.randrange(3), gseed=r.randrange(4), bwd=r.random() < 0.8,
                      nograd=r.random() < 0.15)
        elif k == "call_frozen":
            # fine-tuning set-ups: some parameters frozen, data inputs that need no gradient
            op.update(j=r.randrange(8), k=r.randrange(3), gseed=r.randrange(4), fmask=r.randrange(1, 1 << 16),
                      input_grad=r.random() < 0.4)
        elif k == "bad_call":
            op.update(j=r.randrange(8))
        elif k == "fleet":
            op.update(n=r.choice([9, 10, 12]), fseed=r.randrange(1 << 30))
        elif k == "neighbour":
            op.update(pseed=r.randrange(1 << 30), fwd=_gen_fmt(r), bwd=_gen_fmt(r))
            if r.random() < 0.5 and fwd[2] == "stochastic" and bwd[2] == "stochastic":
                op.update(fwd=fwd[:3] + [r.choice([x for x in (0, 1, 2, 4) if x != fwd[3]])],
                          bwd=bwd[:3] + [r.choice([x for x in (0, 1, 2, 4) if x != bwd[3]])])
        ops.append(op)
    plan["ops"] = ops
    return plan


# ------------------------------------------------------------------------------------


def _opseq(spec: Dict[str, Any]) -> List[str]:
    return [st["op"] + (":" + st["style"] if "style" in st else "") for st in spec["prog"]]


def _fmtkey(f: List[Any]) -> str:
    return f"E{f[0]}M{f[1]}{'RN' if f[2] == 'nearest' else 'SR' + str(f[3])}"


def execute(plan: Dict[str, Any]) -> Dict[str, Any]:
    import random

    import torch
    import torch._dynamo

    from engines import tworld as tw
    from models import proggen, programs
    from simkit.seams import PRFRandint

    res = empty_result()
    log = core.EventLog()
    faults: Dict[str, Dict[str, int]] = {}
    probes: Dict[str, int] = {}
    states: List[str] = []

    def fault(kind: str, fired: bool) -> None:
        d = faults.setdefault(kind, {"planned": 0, "fired": 0})
        d["planned"] += 1
        d["fired"] += int(fired)

    def probe(name: str, k: int = 1) -> None:
        probes[name] = probes.get(name, 0) + k

    prf = PRFRandint(plan["key"]).install()
    try:
        if plan["phase"] == "isolation":
            _isolation(plan, res, log, prf, probe, states)
        elif plan["phase"] in ("known", "known_cf"):
            _known(plan, res, log, prf, probe, states)
        else:
            _programs(plan, res, log, prf, probe, fault, states)
    except Violation as v:
        res["violation"] = v.as_dict()
    finally:
        prf.uninstall()
    res["digest"] = log.digest()
    res["steps"] = log.steps
    res["faults"] = faults
    res["probes"] = probes
    res["states"] = sorted(set(states))
    return res


def _isolation(plan: Dict[str, Any], res: Dict[str, Any], log: Any, prf: Any, probe: Any, states: List[str]) -> None:
    import torch

    from engines import tworld as tw

    for op in plan["ops"]:
        fmt = tw.fmt_obj(op["fmt"])
        g = torch.Generator().manual_seed(op["tseed"])
        x = (torch.randn(*op["shape"], generator=g) * op["scale"]).requires_grad_()
        up = torch.randn(*op["shape"], generator=g) * op["scale"]
        res["opseq"].append("iso:" + _fmtkey(op["fmt"]))
        states.append("iso|" + _fmtkey(op["fmt"]))
        # quantise_fwd: value = quantise(x), gradient passes unchanged
        prf.take_log()
        y = fmt.quantise_fwd(x)
        l1 = prf.take_log()
        want = fmt.quantise(x.detach())
        l2 = prf.take_log()
        if not torch.equal(y.detach(), want) or y.dtype != x.dtype:
            raise Violation("quantise_fwd", "forward_value_not_quantised", f"{_fmtkey(op['fmt'])} shape {op['shape']}")
        if sorted(l1) != sorted(l2):
            raise Violation("quantise_fwd", "random_requests_differ", f"{l1} vs {l2}")
        (gx,) = torch.autograd.grad(y, x, up)
        if not torch.equal(gx, up):
            raise Violation("quantise_fwd", "gradient_not_passed_through", f"{_fmtkey(op['fmt'])}")
        if prf.take_log():
            raise Violation("quantise_fwd", "random_draw_in_backward", f"{_fmtkey(op['fmt'])}")
        # quantise_bwd: value unchanged, gradient = quantise(upstream)
        x2 = x.detach().clone().requires_grad_()
        y2 = fmt.quantise_bwd(x2)
        if not torch.equal(y2.detach(), x2.detach()) or prf.take_log():
            raise Violation("quantise_bwd", "forward_value_changed", f"{_fmtkey(op['fmt'])}")
        (g2,) = torch.autograd.grad(y2, x2, up)
        l3 = prf.take_log()
        wantg = fmt.quantise(up)
        l4 = prf.take_log()
        if not torch.equal(g2, wantg):
            raise Violation("quantise_bwd", "gradient_not_quantised", f"{_fmtkey(op['fmt'])}")
        if sorted(l3) != sorted(l4):
            raise Violation("quantise_bwd", "random_requests_differ", f"{l3} vs {l4}")
        if op["fmt"][2] == "nearest" and (l1 or l3):
            raise Violation("rounding_mode", "nearest_format_draws_random_numbers", f"{l1} {l3}")
        if op["fmt"][2] == "stochastic":
            sr = op["fmt"][3] or 23 - op["fmt"][1]
            for lo, hi, size in l1 + l3:
                if (lo, hi) != (0, 2 ** sr) or tuple(size) != tuple(op["shape"]):
                    raise Violation("rounding_mode", "random_bit_count",
                                    f"requested [{lo},{hi}) {size}, format srbits {sr} shape {op['shape']}")
        log.add("iso", _fmtkey(op["fmt"]), core.tensor_digest([y, gx, g2]))
        probe("isolation_cases")


def _expected_requests(spec: Dict[str, Any], fwd: List[Any], bwd: List[Any]) -> Optional[int]:
    return None


def _programs(plan: Dict[str, Any], res: Dict[str, Any], log: Any, prf: Any, probe: Any, fault: Any,
              states: List[str]) -> None:
    import random

    import torch
    import torch._dynamo

    from engines import tworld as tw
    from models import proggen, programs

    def build(pseed: int) -> Tuple[Dict[str, Any], Any, List[List[torch.Tensor]]]:
        spec = proggen.generate(random.Random(pseed), plan["opts"])
        if pseed == plan["pseed"] and plan.get("spec"):
            spec = plan["spec"]  # an explicit (shrunk) program replaces the generated one
        return spec, programs.ProgModule(spec), [programs.make_inputs(spec, 50 + k) for k in range(3)]

    spec, original, inputs = build(plan["pseed"])
    fwd, bwd = plan["fwd"], plan["bwd"]
    deferred: List[Violation] = []
    for pf in plan.get("pre_formats", []):
        t = torch.linspace(-2.0, 2.0, 8).requires_grad_()
        fo = tw.fmt_obj(pf)
        torch.autograd.grad(fo.quantise_bwd(fo.quantise_fwd(t)).sum(), t)
        prf.take_log()
        probe("earlier_format_same_E_M_other_srbits")
    lossless = fwd[:2] == [8, 23] and bwd[:2] == [8, 23]
    nq = sum(1 for st in spec["prog"] if st["op"] in ("linear", "nn_linear", "u_linear", "uu_linear", "sdpa", "u_sdpa"))
    res["nontrivial"] = nq > 0
    states.append(f"{_fmtkey(fwd)}|{_fmtkey(bwd)}|nq={min(nq, 6)}|{plan['phase']}")
    progsig = "/".join(_opseq(spec))
    res["opseq"].append(f"{_fmtkey(fwd)}>{_fmtkey(bwd)}:{progsig}")
    pre_us = bool(plan.get("pre_unit_scale")) and plan["phase"] == "dynamo"
    if pre_us:
        import unit_scaling.transforms as T0

        try:
            original = T0.unit_scale(original)
        except Exception as e:
            raise Violation("transform_succeeds", "unit_scale_raised", f"{type(e).__name__}: {str(e)[:300]}")
        probe("on_top_of_unit_scale")
    ref = programs.Reference(spec, us=pre_us, q=(fwd, bwd))
    plain = programs.Reference(spec, us=pre_us)
    snap0 = tw.state_snapshot(original)

    def transform(mod: Any, f: List[Any], b: List[Any], fp8: bool) -> Any:
        import unit_scaling.transforms as T

        try:
            new = T.simulate_fp8(mod) if fp8 else T.simulate_format(mod, tw.fmt_obj(f), tw.fmt_obj(b))
        except Exception as e:
            raise Violation("transform_succeeds", "simulate_format_raised", f"{type(e).__name__}: {str(e)[:300]}")
        # "nothing else changed": the same parameters, tied where the original ties them
        d = tw.sharing_diff(mod, new)
        if d:
            raise Violation("equals_hand_quantised", "parameter_sharing_changed", d)
        return new

    def compare(fn: Any, holder: Any, k: int, gseed: int, bwd_: bool, where: str, first: Dict[Any, str],
                the_ref: Any, the_inputs: Any, is_lossless: bool, the_plain: Any, sig: str,
                shared: bool = False, nograd: bool = False) -> None:
        prf.take_log()
        try:
            got = tw.run(fn, holder, tw.clone_inputs(the_inputs[k]), gseed, backward=bwd_, no_grad=nograd)
        except Exception as e:
            raise Violation("runs_after_rewrite", _culprit_for_exception(e, sig),
                            f"{type(e).__name__}: {str(e)[:500]} {where} program {sig}")
        la = sorted(prf.take_log())
        want = tw.run(lambda *xs: the_ref.run(holder, xs), holder, tw.clone_inputs(the_inputs[k]), gseed, backward=bwd_,
                      no_grad=nograd)
        lb = sorted(prf.take_log())
        d = tw.diff(got, want)
        if d:
            raise Violation("equals_hand_quantised", "value_mismatch", f"{d} {where} program {sig}")
        if la != lb:
            raise Violation("equals_hand_quantised", "random_requests_differ",
                            f"module {la[:3]}..({len(la)}) reference {lb[:3]}..({len(lb)}) {where}")
        if is_lossless:
            base = tw.run(lambda *xs: the_plain.run(holder, xs), holder, tw.clone_inputs(the_inputs[k]), gseed, backward=bwd_,
                          no_grad=nograd)
            d = tw.diff({"outs": got["outs"]}, {"outs": base["outs"]})
            if d:
                raise Violation("lossless_is_identity", "differs_from_original", f"{d} {where}")
            d = tw.diff(got, base)
            if d:
                tol = plan.get("lossless_grad_tol")
                if not tw.grads_close_globally(got, base, tol or 1e-5):
                    raise Violation("lossless_is_identity", "differs_from_original", f"{d} {where}")
                if tol is None:
                    # rounding-level gradient difference: reported at the end of the run
                    # unless something else fails first
                    deferred.append(Violation("lossless_is_identity", "gradient_last_bits",
                                              f"{d} {where} program {sig}"))
            probe("lossless_compared")
        dg = tw.result_digest(got)
        key = (k, gseed, bwd_, nograd)
        if nograd:
            probe("calls_under_no_grad")
        if key in first and first[key] != dg:
            raise Violation("repeatable", "result_changed_between_calls", where)
        first.setdefault(key, dg)
        log.add("call", k, gseed, bwd_, dg)
        probe("calls_compared")
        probe("random_requests_matched", len(la))

    if plan["phase"] == "direct":
        import unit_scaling.functional as U
        from torch import fx

        holder = copy.deepcopy(original)
        dummy = transform(torch.nn.Identity(), fwd, bwd, plan["use_fp8"])
        backend = dummy.backends[-1]

        class T_(fx.Tracer):
            # U.* functions stay leaf calls (a plain fx trace through them cannot represent
            # their backward-only scale factors -- that is C20's subject, not this check's)
            def __init__(self) -> None:
                import math
                from types import FunctionType

                super().__init__(autowrap_modules=(math, U))
                self._autowrap_function_ids.discard(id(FunctionType))

            def is_leaf_module(self, m: Any, qn: str) -> bool:
                return False

        try:
            graph = T_().trace(holder)
        except Exception as e:
            res["notes"].append("program not fx-traceable (skipped in phase direct)")
            return
        gm = fx.GraphModule(holder, graph)
        before = [(n.op, n.target) for n in gm.graph.nodes]
        import torch.nn.functional as F_

        matmul_targets = {F_.linear, U.linear, F_.scaled_dot_product_attention, U.scaled_dot_product_attention}
        try:
            gm2 = backend(gm, [])
        except Exception as e:
            raise Violation("runs_after_rewrite", "backend_raised", f"{type(e).__name__}: {str(e)[:300]}")
        after = [(n.op, n.target) for n in gm2.graph.nodes]
        # structure, stated without reference to the library's private wrapper functions: every
        # linear / attention node got another target, no other node changed, nothing was added
        if len(before) != len(after):
            raise Violation("rewrite_structure", "node_count_changed", f"{len(before)} -> {len(after)}")
        for (o1, t1), (o2, t2) in zip(before, after):
            if o1 == "call_function" and t1 in matmul_targets:
                if t2 is t1:
                    raise Violation("rewrite_structure", "matmul_op_not_replaced", f"{t1}")
            elif (o1, t1) != (o2, t2):
                raise Violation("rewrite_structure", "other_node_changed", f"{t1} -> {t2}")
        first: Dict[Any, str] = {}
        for op in plan["ops"]:
            compare(gm2, holder, op["k"], op["gseed"], True, "direct backend", first, ref, inputs, lossless, plain, progsig)
        probe("direct_graphs")
        if deferred:
            raise deferred[0]
        return

    # ---------------- dynamo phase: a little world of transformed modules
    mods: List[Dict[str, Any]] = []
    for i, op in enumerate(plan["ops"]):
        k = op["op"]
        where = f"after op#{i} {k}"
        if k == "transform":
            if len(mods) >= 3:
                continue
            m = transform(original, fwd, bwd, plan["use_fp8"])
            mods.append({"mod": m, "ref": ref, "plain": plain, "inputs": inputs, "first": {}, "lossless": lossless,
                         "sig": progsig})
        elif k == "neighbour":
            if len(mods) >= 3:
                continue
            opts_spec, omod, oin = build(op["pseed"])
            m = transform(omod, op["fwd"], op["bwd"], False)
            osig = "/".join(_opseq(opts_spec))
            mods.append({"mod": m, "ref": programs.Reference(opts_spec, q=(op["fwd"], op["bwd"])),
                         "plain": programs.Reference(opts_spec), "inputs": oin, "first": {},
                         "lossless": False, "sig": osig})
            probe("neighbour_modules")
        elif k == "fleet":
            # a format sweep: many transformed modules of one class in one process, each
            # called once (whatever TorchDynamo caches per code object is shared by all of them)
            import random as _random

            fr = _random.Random(op["fseed"])
            for j in range(op["n"]):
                f_, b_ = _gen_fmt(fr), _gen_fmt(fr)
                if f_[:2] == [8, 23] and b_[:2] == [8, 23]:
                    f_ = [4, 3, "nearest", 0]
                fm_ = transform(original, f_, b_, False)
                compare(fm_, fm_, j % 3, 0, True, where + f" fleet member {j} {_fmtkey(f_)}>{_fmtkey(b_)}", {},
                        programs.Reference(spec, us=pre_us, q=(f_, b_)), inputs, False, plain, progsig)
            probe("fleet_members", op["n"])
        elif not mods:
            continue
        elif k == "call":
            w = mods[op["j"] % len(mods)]
            compare(w["mod"], w["mod"], op["k"], op["gseed"], op["bwd"], where, w["first"], w["ref"], w["inputs"],
                    w["lossless"], w["plain"], w["sig"], nograd=bool(op.get("nograd")))
        elif k == "call_frozen":
            w = mods[op["j"] % len(mods)]
            ps = list(w["mod"].parameters())
            ins = w["inputs"] if op["input_grad"] else [[t.detach() for t in x] for x in w["inputs"]]
            for i_, p_ in enumerate(ps):
                p_.requires_grad_(not ((op["fmask"] >> (i_ % 16)) & 1))
            try:
                if any(p_.requires_grad for p_ in ps) or op["input_grad"]:
                    compare(w["mod"], w["mod"], op["k"], op["gseed"], True, where, {}, w["ref"], ins,
                            w["lossless"], w["plain"], w["sig"])
                    probe("calls_with_frozen_parameters")
            finally:
                for p_ in ps:
                    p_.requires_grad_(True)
        elif k == "reset":
            torch._dynamo.reset()
            fault("dynamo.reset", True)
        elif k == "bad_call":
            w = mods[op["j"] % len(mods)]
            bad = tw.clone_inputs(w["inputs"][0])
            if bad[0].is_floating_point():
                bad[0] = torch.randn(*(list(bad[0].shape[:-1]) + [bad[0].shape[-1] + 3]))
            else:
                bad[0] = bad[0].to(torch.float32)
            raised = False
            try:
                w["mod"](*bad)
            except Exception:
                raised = True
            fault("call.bad_input", raised)
            prf.take_log()
            compare(w["mod"], w["mod"], 0, 0, True, where + " (first call after the failed one)", w["first"], w["ref"],
                    w["inputs"], w["lossless"], w["plain"], w["sig"])
        res["opseq"].append(k)
        d = tw.state_equal(original, snap0)
        if d:
            raise Violation("original_untouched", "state_changed", f"{d} {where}")
    if deferred:
        raise deferred[0]


def _culprit_for_exception(e: BaseException, sig: str) -> str:
    msg = str(e)
    if isinstance(e, TypeError) and ("bias_kw" in sig or "weight_kw" in sig) and "argument" in msg:
        return "call_raised:linear_keyword_arguments"
    if isinstance(e, TypeError) and "mask_pos" in sig and "positional" in msg:
        return "call_raised:attention_positional_mask"
    if "modified inplace" in msg and "iadd" in sig:
        return "call_raised:inplace_add_on_quantised_output"
    return "call_raised:" + type(e).__name__


def _known(plan: Dict[str, Any], res: Dict[str, Any], log: Any, prf: Any, probe: Any, states: List[str]) -> None:
    """Probe of the recorded finding: a root module that is itself a torch.nn layer."""
    import torch
    from torch import nn
    import torch.nn.functional as F
    import unit_scaling.transforms as T

    from engines import tworld as tw
    from models import programs

    op = plan["ops"][0]
    if op["op"] in ("shared_qkv", "unshared_qkv"):
        # one tensor as query, key and value of an attention op, lossless formats
        from models.builder import SpecBuilder

        b = SpecBuilder(plan["pseed"] % (1 << 20))
        x = b.inp([2] + op["shape"])
        h = b.op("linear", [x], w=b.param([op["shape"][-1], op["shape"][-1]], 0.4), b=None)
        if op["op"] == "shared_qkv":
            qkv = [h, h, h]
        else:  # counterfactual: three distinct tensors with the same values
            qkv = [b.op("mul_scalar", [h], c=1.0) for _ in range(3)]
        y = b.op("sdpa", qkv, style=op["style"])
        spec = b.out(y)
        mod = programs.ProgModule(spec)
        ll = [8, 23, "nearest", 0]
        m = T.simulate_format(mod, tw.fmt_obj(ll), tw.fmt_obj(ll))
        inp = programs.make_inputs(spec, 7)
        got = tw.run(m, m, tw.clone_inputs(inp), 3)
        plain = programs.Reference(spec)
        want = tw.run(lambda *xs: plain.run(m, xs), m, tw.clone_inputs(inp), 3)
        res["opseq"].append(op["op"] + ":" + op["style"])
        states.append("known|" + op["op"])
        d = tw.diff(got, want)
        if d:
            if tw.diff({"outs": got["outs"]}, {"outs": want["outs"]}) or not tw.grads_close_globally(
                    got, want, plan.get("lossless_grad_tol") or 1e-5):
                raise Violation("lossless_is_identity", "differs_from_original", f"{d}")
            if plan.get("lossless_grad_tol") is None:
                raise Violation("lossless_is_identity", "gradient_last_bits", f"{d} (shared attention operands)")
        return
    torch.manual_seed(plan["pseed"] % (1 << 31))
    root = nn.Linear(6, 4) if op["kind"] == "linear" else nn.Sequential(nn.Linear(6, 5), nn.GELU(), nn.Linear(5, 4))
    wrapped = op["op"] == "nn_root_wrapped"
    if wrapped:  # counterfactual: a user-defined forward on the call path
        root = _Wrap(root)
    fwd, bwd = [4, 3, "nearest", 0], [5, 2, "nearest", 0]
    m = T.simulate_format(root, tw.fmt_obj(fwd), tw.fmt_obj(bwd))
    inner = m.inner if wrapped else m
    x = torch.randn(3, 6, generator=torch.Generator().manual_seed(5)).requires_grad_()
    f_, b_ = tw.fmt_obj(fwd), tw.fmt_obj(bwd)

    def ref_linear(lin: Any, t: Any) -> Any:
        return programs._RefQBwd.apply(F.linear(programs._RefQFwd.apply(t, f_), programs._RefQFwd.apply(lin.weight, f_), lin.bias), b_)

    def ref(t: Any) -> Any:
        if op["kind"] == "linear":
            return ref_linear(inner, t)
        return ref_linear(inner[2], F.gelu(ref_linear(inner[0], t)))

    got = tw.run(m, m, [x.detach().clone().requires_grad_()], 3)
    want = tw.run(ref, m, [x.detach().clone().requires_grad_()], 3)
    res["opseq"].append("nn_root:" + op["kind"])
    states.append("known|nn_root|" + op["kind"])
    d = tw.diff(got, want)
    if d:
        raise Violation("equals_hand_quantised", "root_is_torch_nn_layer", f"{op['kind']}: {d}")


class _WrapBase:
    pass


def _mk_wrap() -> Any:
    from torch import nn

    class Wrap(nn.Module):
        def __init__(self, inner: Any) -> None:
            super().__init__()
            self.inner = inner

        def forward(self, x: Any) -> Any:
            return self.inner(x)

    return Wrap


def _Wrap(inner: Any) -> Any:
    return _mk_wrap()(inner)


def neutralise(plan: Dict[str, Any], finding: Dict[str, Any]) -> Optional[Dict[str, Any]]:
    """Counterfactual for known findings: the same probe with the culprit removed."""
    c = copy.deepcopy(plan)
    if finding.get("id") == "D9":
        # counterfactual: the same plan, gradients of the lossless run compared at
        # float-rounding level instead of bit for bit (outputs stay bitwise)
        c["lossless_grad_tol"] = 1e-5
        return c
    if finding.get("id") == "D7" and plan.get("phase") == "known" and plan["ops"][0]["op"] == "nn_root":
        c["phase"] = "known_cf"
        c["ops"] = [{"op": "nn_root_wrapped", "kind": plan["ops"][0]["kind"]}]
        return c
    return None


def simplify(plan: Dict[str, Any]) -> Iterable[Dict[str, Any]]:
    if plan.get("phase") not in ("dynamo", "direct"):
        return
    import random

    from models import proggen, shrinkspec

    base = plan.get("spec") or proggen.generate(random.Random(plan["pseed"]), plan["opts"])
    for cand in shrinkspec.candidates(base):
        c = copy.deepcopy(plan)
        c["spec"] = cand
        yield c
    if plan.get("spec"):
        return
    lo, hi = plan["opts"]["depth"]
    for new_hi in (1, 2, 4, 6):
        if new_hi < hi:
            c = copy.deepcopy(plan)
            c["opts"]["depth"] = [1, new_hi]
            yield c
    for s in range(3):
        c = copy.deepcopy(plan)
        c["pseed"] = s
        c["opts"]["depth"] = [1, 2]
        yield c
    if plan["fwd"][2] != "nearest" or plan["bwd"][2] != "nearest":
        c = copy.deepcopy(plan)
        c["fwd"] = plan["fwd"][:2] + ["nearest", 0]
        c["bwd"] = plan["bwd"][:2] + ["nearest", 0]
        c["use_fp8"] = False
        yield c
