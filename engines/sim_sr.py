"""sim_sr -- C14: stochastic rounding picks a neighbour with exactly proportional
probability.  The library's random draw (torch.randint, looked up at call time) is the seam:
the simulator replaces it by an *enumerator*, so one `quantise` call evaluates every input
under every possible draw and the probability becomes a count compared with an exact model.
"""

from __future__ import annotations

import copy
from fractions import Fraction
from typing import Any, Dict, Iterable, List, Optional, Tuple

import numpy as np

from models import fpformat as fm
from simkit import core
from simkit.core import Violation
from simkit.runner import empty_result

PROPERTY = "C14"
NAME = "sim_sr"
NEED_DYNAMO = False
COMPONENTS = {
    "real": ["unit_scaling.formats.FPFormat.quantise (stochastic branch)", "torch integer/bit/float32 kernels"],
    "stub": ["torch.randint (replaced by the simulator: exhaustive enumerator of the requested range, or a keyed per-element draw); every request is logged"],
}
ASSUMPTIONS = [
    "the library obtains its random integers through torch.randint (the seam); a different source would make the check report a harness error (exit 2), not a violation",
    "the uniform distribution is taken over the range the library actually requests; srbits is the format's public field",
    "float32 inputs only (other dtypes are C13's territory); finite inputs",
    "for inputs below the format's minimum normal whose down-scaled value is not exactly representable in float32, the library's float32 pre-rounding (at most half a unit of the last discarded bit) is allowed on top of the stated bound",
    "zero keeps its value; the sign bit of zero is not demanded",
    "seeded search over (format, srbits, input class); per input the draw space is enumerated exhaustively",
]
RULE = (
    "per run one format (E 2..7, M 0..10, srbits default or 1..12) and 1-4 seeded input batches from classes "
    "{representable, midpoint, near(+-1..4 ulp), random_mantissa per exponent, subnormal range, top binade, beyond max, "
    "zero, half-way-of-draw-grid}; every input is evaluated under ALL draws of the requested range (chunked); a keyed per-element draw "
    "then checks independence over layouts (contiguous, transposed, rank 3, expanded, requires_grad) and quantise_fwd / quantise_bwd against quantise, and re-quantises an overwritten quantise() output; "
    "non-trivial = run with >= 1 non-representable input; distinct = (E, M, srbits, input classes)"
)

CLASSES = ["representable", "midpoint", "near", "random_mantissa", "subnormal", "top",
           "beyond", "zero", "drawgrid"]
ELEM_BUDGET = 1 << 24  # N * R elements per run batch (chunked at 2^22)
CHUNK = 1 << 22


def phases(tier: str) -> List[Dict[str, Any]]:
    if tier == "quick":
        return [{"name": "enum", "runs": 1280, "batch": 8, "timeout": 400, "wall": 120},
                {"name": "known", "runs": 2, "explicit": True, "timeout": 300, "wall": 60}]
    return [{"name": "enum", "runs": 20000, "batch": 25, "timeout": 1800, "wall": 1500},
            {"name": "known", "runs": 2, "explicit": True, "timeout": 300, "wall": 60}]


def explicit_plans(tier: str, phase: str) -> List[Dict[str, Any]]:
    """Deterministic probe of the recorded finding D18: torch.set_flush_denormal(True)."""
    return [{"phase": "known", "flush_denormal": True, "fmts": [[E, M, sr]], "timeout": 300, "shrink_budget": 0,
             "ops": [{"cls": "subnormal", "iseed": 5, "skip": 0, "n": 64, "shape2d": False, "f": 0},
                     {"cls": "representable", "iseed": 6, "skip": 0, "n": 256, "shape2d": False, "f": 0}]}
            for E, M, sr in ((4, 3, 3), (5, 2, 0))]


def neutralise(plan: Dict[str, Any], finding: Dict[str, Any]) -> Optional[Dict[str, Any]]:
    if finding.get("id") == "D18" and plan.get("flush_denormal"):
        c = copy.deepcopy(plan)
        c["flush_denormal"] = False  # counterfactual: the default floating-point mode
        return c
    return None


def generate(seed: int, tier: str, phase: str) -> Dict[str, Any]:
    r = core.rng(seed, "workload")
    E = r.choice([2, 3, 4, 4, 5, 5, 6, 7])
    M = r.choice([0, 1, 2, 3, 3, 4, 5, 6, 7, 8, 9, 10])
    sr = r.choice([0, 0, 0, 1, 2, 3, 4, 5, 6, 7, 8, 9, 10, 11, 12, -1, -2, -3])
    if sr < 0:  # nearly all bits: 23 - M - k random bits
        sr = 23 - M + sr
    # several formats with the same (E, M) and different srbits live in one process and are
    # used in an interleaved order: anything the library keeps between calls (per-format
    # caches) is shared state, and the property has to hold for every such history
    fmts = [[E, M, sr]]
    for _ in range(r.choice([0, 0, 1, 2])):
        sr2 = r.choice([0, 1, 2, 3, 4, 6, 8, 12])
        if all(f[2] != sr2 for f in fmts):
            fmts.append([E, M, sr2])
    ops = []
    for _ in range(r.choice([1, 2, 3, 4]) + len(fmts) - 1):
        ops.append({"cls": r.choice(CLASSES), "iseed": r.randrange(1 << 31), "skip": 0,
                    "n": 1 << 20, "shape2d": r.random() < 0.3, "f": r.randrange(len(fmts))})
    return {"phase": phase, "fmts": fmts, "ops": ops, "timeout": 400, "shrink_budget": 300}


# ------------------------------------------------------------------------------------
# inputs


def gen_inputs(E: int, M: int, srbits: int, cls: str, n: int, iseed: int) -> np.ndarray:
    rs = np.random.RandomState(iseed % (2**32))
    vs = fm.value_set(E, M)
    sign = rs.choice([-1.0, 1.0], n)
    emin, emax = fm.emin(E), fm.emax(E)
    if cls == "representable":
        x = rs.choice(vs, n)
    elif cls == "midpoint":
        i = rs.randint(0, len(vs) - 1, n)
        x = (vs[i] + vs[i + 1]) / 2
    elif cls == "near":
        i = rs.randint(0, len(vs) - 1, n)
        base = np.where(rs.rand(n) < 0.5, vs[i], (vs[i] + vs[i + 1]) / 2).astype(np.float32)
        k = rs.choice([-4, -3, -2, -1, 1, 2, 3, 4], n).astype(np.int32)
        x = np.maximum(base.view(np.int32) + k, 0).view(np.float32).astype(np.float64)
    elif cls == "random_mantissa":
        e = rs.randint(emin - M - 2, emax + 1, n)
        x = np.ldexp(1.0 + rs.randint(0, 1 << 23, n) / float(1 << 23), e)
    elif cls == "subnormal":
        e = rs.randint(emin - M - 26, emin, n)
        x = np.ldexp(1.0 + rs.randint(0, 1 << 23, n) / float(1 << 23), e)
    elif cls == "top":
        x = np.ldexp(1.0 + rs.randint(0, 1 << 23, n) / float(1 << 23), emax)
    elif cls == "beyond":
        mx = float(fm.max_value(E, M))
        x = mx * (1.0 + rs.rand(n) * rs.choice([1e-6, 1e-3, 1.0, 1e3], n))
        x[: min(2, n)] = 3.4028234663852886e38
    elif cls == "zero":
        x = np.zeros(n)
    elif cls == "drawgrid":
        # positions at / around the half-way points of the draw grid: frac = (j + d) / 2^srbits
        i = rs.randint(0, len(vs) - 1, n)
        lo, hi = vs[i], vs[i + 1]
        j = rs.randint(0, 1 << srbits, n)
        kk = rs.randint(1, 12, n)
        d = rs.choice([0.0, 0.5, 0.5, 1.0], n) + rs.choice([-1.0, 0.0, 1.0], n) * np.ldexp(1.0, -kk)
        frac = np.clip((j + d) / float(1 << srbits), 0.0, 1.0)
        x = lo + (hi - lo) * frac
    else:
        raise ValueError(cls)
    x = (x * sign).astype(np.float32)
    return x[np.isfinite(x)]


# ------------------------------------------------------------------------------------
# the seam


class RandintSeam:
    """Replacement for torch.randint owned by the simulator."""

    def __init__(self) -> None:
        self.requests: List[Tuple[int, int, Tuple[int, ...], str]] = []
        self.mode = "probe"
        self.base = 0
        self.keyed: Any = None
        self._orig: Any = None

    def __enter__(self) -> "RandintSeam":
        import torch

        self._orig = torch.randint
        torch.randint = self  # type: ignore[assignment]
        return self

    def __exit__(self, *a: Any) -> None:
        import torch

        torch.randint = self._orig  # type: ignore[assignment]

    def __call__(self, *args: Any, **kw: Any) -> Any:
        import torch

        a = list(args)
        if len(a) >= 3:
            low, high, size = a[0], a[1], a[2]
        elif len(a) == 2:
            low, (high, size) = 0, a
        else:
            low, high, size = kw.get("low", 0), kw.get("high", a[0] if a else None), kw["size"]
        if "size" in kw:
            size = kw["size"]
        size = tuple(int(s) for s in size)
        dtype = kw.get("dtype", torch.int64)
        self.requests.append((int(low), int(high), size, str(dtype)))
        if self.mode == "probe":
            return torch.zeros(size, dtype=dtype) + int(low)
        if self.mode == "enum":
            if len(size) < 1:
                raise SeamShape(size)
            cols = size[-1]
            draws = torch.arange(self.base, self.base + cols, dtype=torch.int64) + int(low)
            return draws.to(dtype).expand(size).contiguous()
        if self.mode == "keyed":
            if int(np.prod(size)) != self.keyed.numel():
                raise SeamShape(size)
            return (self.keyed.reshape(size) + int(low)).to(dtype)
        raise RuntimeError(self.mode)


class SeamShape(Exception):
    pass


# ------------------------------------------------------------------------------------
# execution


def execute(plan: Dict[str, Any]) -> Dict[str, Any]:
    import torch
    from unit_scaling.formats import FPFormat

    res = empty_result()
    log = core.EventLog()
    flush = bool(plan.get("flush_denormal"))
    torch.set_flush_denormal(flush)
    fmts = plan.get("fmts") or [plan["fmt"]]
    probes: Dict[str, int] = {}
    states: List[str] = []

    def probe(name: str, k: int = 1) -> None:
        probes[name] = probes.get(name, 0) + k

    try:
        objs = [FPFormat(E_, M_, "stochastic", sr_) for E_, M_, sr_ in fmts]
        if len(fmts) > 1:
            probe("runs_with_several_formats")
        with RandintSeam() as seam:
            for op in plan["ops"]:
                fi = op.get("f", 0) % len(fmts)
                E, M, sr = fmts[fi]
                fmt = objs[fi]
                d = 23 - M
                # the default (0) means "all discarded bits": the exact clause applies whatever
                # the library then stores in its field; otherwise the caller's requested count
                srbits = d if sr == 0 else sr
                allbits = srbits == d
                seam.mode = "probe"
                seam.requests.clear()
                try:
                    fmt.quantise(torch.zeros(3, dtype=torch.float32))
                except Exception as e:
                    raise Violation("neighbour", "quantise_raised",
                                    f"E{E}M{M} srbits={sr}: {type(e).__name__}: {str(e)[:200]}")
                if len(seam.requests) != 1:
                    if not seam.requests:
                        raise RuntimeError("quantise made no torch.randint request: seam not reachable")
                    raise Violation("independent_draws", "several_requests_per_call", f"{seam.requests}")
                low, high, size, _ = seam.requests[0]
                if size != (3,):
                    raise Violation("independent_draws", "draw_shape_differs_from_input",
                                    f"input shape (3,), random request shape {size}: elements share draws")
                R = high - low
                if R < 1 or R > (1 << 24):
                    raise RuntimeError(f"requested draw range [{low},{high}) cannot be enumerated")
                log.add("request", low, high)
                min_normal = 2.0 ** fm.emin(E)
                grid = 2.0 ** (fm.emin(E) - 23)  # multiples survive the down-scaling exactly
                n0 = max(1, min(ELEM_BUDGET // R, 4096))  # independent of the shrink window
                x = gen_inputs(E, M, srbits, op["cls"], n0, op["iseed"])
                x = x[op.get("skip", 0):][: max(1, op["n"])]
                if len(x) == 0:
                    continue
                res["opseq"].append(op["cls"])
                states.append(f"E{E}M{M}|sr{srbits}|{op['cls']}")
                lo, hi, frac, spacing = fm.neighbours_np(E, M, x)
                # cross-check the vectorised model against exact rational arithmetic
                for i in range(min(3, len(x))):
                    flo, fhi, ffr = fm.neighbours_fraction(E, M, Fraction(float(x[i])))
                    if (float(flo), float(fhi), float(ffr)) != (lo[i], hi[i], frac[i]):
                        raise RuntimeError(f"model self-check failed at {x[i]!r}")
                sgn = np.where(np.signbit(x), -1.0, 1.0)
                lo_s = torch.from_numpy((sgn * lo).astype(np.float32))[:, None]
                hi_s = torch.from_numpy((sgn * hi).astype(np.float32))[:, None]
                xt = torch.from_numpy(x.copy())
                N = len(x)
                count_hi = torch.zeros(N, dtype=torch.int64)
                cols = max(1, min(R, CHUNK // N))
                seam.mode = "enum"
                for base in range(0, R, cols):
                    c = min(cols, R - base)
                    seam.base = base
                    seam.requests.clear()
                    try:
                        out = fmt.quantise(xt[:, None].expand(N, c))
                    except SeamShape as e:
                        raise Violation("independent_draws", "draw_shape_differs_from_input",
                                        f"input shape {(N, c)}, random request shape {e.args[0]}")
                    except Exception as e:
                        raise Violation("neighbour", "quantise_raised",
                                        f"E{E}M{M} srbits={sr} inputs of class {op['cls']}: {type(e).__name__}: {str(e)[:200]}")
                    if len(seam.requests) != 1 or seam.requests[0][2] != (N, c) or \
                            seam.requests[0][:2] != (low, high):
                        raise Violation("independent_draws", "draw_shape_differs_from_input",
                                        f"input shape {(N, c)}, requests {seam.requests}")
                    if out.dtype != torch.float32 or tuple(out.shape) != (N, c):
                        raise Violation("neighbour", "output_shape_or_dtype", f"{out.dtype} {tuple(out.shape)}")
                    is_hi = out == hi_s
                    ok = is_hi | (out == lo_s)
                    if not bool(ok.all()):
                        i, j = [int(v[0]) for v in torch.nonzero(~ok, as_tuple=True)]
                        rep = lo[i] == hi[i]
                        raise Violation(
                            "neighbour",
                            "representable_input_moved" if rep else "not_a_neighbour",
                            f"E{E}M{M} srbits={srbits} x={float(x[i])!r} draw={base + j + low} -> "
                            f"{float(out[i, j])!r}, neighbours +-({lo[i]!r}, {hi[i]!r}) cls={op['cls']} idx={i + op.get('skip', 0)}")
                    count_hi += is_hi.sum(1)
                    log.add("chunk", op["cls"], base, core.tensor_digest(out))
                cnt = count_hi.numpy().astype(np.float64)
                nonrep = lo != hi
                cnt = np.where(nonrep, cnt, 0.0)
                want = frac * R
                a = np.minimum(np.abs(x.astype(np.float64)), float(fm.max_value(E, M)))
                exact_ds = (a >= min_normal) | (np.floor(a / grid) * grid == a)
                bound = np.where(allbits & (a >= min_normal), 0.0, R * 2.0 ** -(srbits + 1))
                bound = bound + np.where(exact_ds, 0.0, R * 2.0 ** -(d + 1))
                err = np.abs(cnt - want)
                bad = err > bound
                probe("inputs", N)
                probe("inputs_nonrepresentable", int(nonrep.sum()))
                probe("inputs_exact_clause", int((nonrep & (bound == 0)).sum()))
                probe("inputs_subnormal_range", int((a < min_normal).sum()))
                probe("inputs_at_half_bound", int((nonrep & (err == bound) & (bound > 0)).sum()))
                probe("draws_evaluated", N * R)
                if bool(bad.any()):
                    i = int(np.nonzero(bad)[0][0])
                    exact = bound[i] == 0
                    raise Violation(
                        "probability",
                        "exact_clause" if exact else "bias_bound",
                        f"E{E}M{M} srbits={srbits} R={R} x={float(x[i])!r} frac={frac[i]!r}: rounded away from zero "
                        f"under {int(cnt[i])} of {R} draws, expected {want[i]!r} +- {bound[i]!r} cls={op['cls']} idx={i + op.get('skip', 0)}")
                # independence: a keyed per-element draw must give, element by element, what
                # the same element gives alone under the same draw
                seam.mode = "keyed"
                rs = np.random.RandomState((op["iseed"] + 17) % (2**32))
                m = min(N, 512)
                r = torch.from_numpy(rs.randint(0, R, m).astype(np.int64))
                shape = (m,)
                if op.get("shape2d") and m % 2 == 0 and m >= 4:
                    shape = (2, m // 2)
                xin = xt[:m].reshape(shape)
                layout = op["iseed"] % 4
                if layout == 1 and len(shape) == 2:
                    # a non-contiguous (transposed) view holding the same elements in the same
                    # logical order
                    xin = xin.t().contiguous().t()
                    probe("noncontiguous_inputs")
                elif layout == 2 and m >= 8 and m % 4 == 0:
                    shape = (2, 2, m // 4)
                    xin = xt[:m].reshape(shape)
                    probe("rank3_inputs")
                src = list(range(m))  # flat position in xin -> index into xt
                if layout == 3 and m >= 4:
                    # an expanded (stride-0) view: every element appears twice, each occurrence
                    # with its own draw
                    h2 = m // 2
                    shape = (2, h2)
                    xin = xt[:h2].unsqueeze(0).expand(2, h2)
                    src = list(range(h2)) * 2
                    r = r[: 2 * h2]
                    probe("expanded_inputs")
                if op["iseed"] % 5 == 0:
                    xin = xin.clone().requires_grad_() if layout != 3 else xin
                    probe("requires_grad_inputs", int(xin.requires_grad))
                x_before = xin.detach().clone()
                seam.keyed = r
                seam.requests.clear()
                try:
                    out = fmt.quantise(xin).detach().reshape(-1)
                except SeamShape as e:
                    raise Violation("independent_draws", "draw_shape_differs_from_input",
                                    f"input shape {shape}, random request shape {e.args[0]}")
                if len(seam.requests) != 1 or seam.requests[0][2] != shape:
                    raise Violation("independent_draws", "draw_shape_differs_from_input",
                                    f"input shape {shape}, requests {seam.requests}")
                # the two autograd wrappers are the same rounding under the same draws (this is how
                # the format simulation reaches it): forward value of quantise_fwd, gradient of
                # quantise_bwd
                seam.keyed = r
                seam.requests.clear()
                via_fwd = fmt.quantise_fwd(xin.detach()).detach().reshape(-1)
                if not torch.equal(via_fwd, out):
                    i = int((via_fwd != out).nonzero()[0][0]) if via_fwd.shape == out.shape else 0
                    raise Violation("probability", "quantise_fwd_rounds_differently",
                                    f"E{E}M{M} srbits={srbits} x={float(x[src[i]])!r} draw={int(r[i])}: quantise -> {float(out[i])!r}, "
                                    f"quantise_fwd -> {float(via_fwd[i])!r} (format #{fi} of this process)")
                seam.keyed = r
                seam.requests.clear()
                leaf = torch.zeros(shape, requires_grad=True)
                fmt.quantise_bwd(leaf).backward(xin.detach().clone())
                via_bwd = leaf.grad.reshape(-1)
                if not torch.equal(via_bwd, out):
                    i = int((via_bwd != out).nonzero()[0][0])
                    raise Violation("probability", "quantise_bwd_rounds_differently",
                                    f"E{E}M{M} srbits={srbits} g={float(x[src[i]])!r} draw={int(r[i])}: quantise -> {float(out[i])!r}, "
                                    f"gradient through quantise_bwd -> {float(via_bwd[i])!r} (format #{fi} of this process)")
                probe("autograd_wrappers_compared")
                # a tensor that came OUT of quantise, was then overwritten in place (a residual
                # update, an optimiser step) and is quantised again: rounded like any other input
                seam.keyed = r
                seam.requests.clear()
                y = fmt.quantise(xin.detach().clone())
                x2 = xin.detach().clone().reshape(-1).roll(1).reshape(xin.shape)
                y.copy_(x2)
                seam.keyed = r
                again = fmt.quantise(y).detach().reshape(-1)
                seam.keyed = r
                fresh = fmt.quantise(x2.clone()).detach().reshape(-1)
                if not torch.equal(again, fresh):
                    i = int((again != fresh).nonzero()[0][0])
                    raise Violation("neighbour", "requantised_tensor_not_rounded",
                                    f"E{E}M{M} srbits={srbits}: a quantise() output overwritten in place with {float(x2.reshape(-1)[i])!r} "
                                    f"and quantised again gives {float(again[i])!r}, a fresh tensor with the same value gives {float(fresh[i])!r}")
                probe("requantised_after_inplace_update")
                npos = len(src) if layout == 3 else min(m, 24)
                for i in (list(range(min(npos, 12))) + list(range(max(npos - 12, 12), npos))):
                    seam.keyed = r[i:i + 1]
                    one = fmt.quantise(xt[src[i]:src[i] + 1])
                    if not torch.equal(one.reshape(()), out[i]):
                        raise Violation("independent_draws", "element_depends_on_neighbours",
                                        f"E{E}M{M} x={float(x[src[i]])!r} draw={int(r[i])}: alone {float(one)!r}, in tensor {float(out[i])!r}")
                log.add("keyed", core.tensor_digest(out))
    except Violation as v:
        res["violation"] = v.as_dict()
        if flush and v.invariant == "neighbour":
            res["violation"]["culprit"] = "subnormal_range_flushed_with_flush_denormal"
    finally:
        torch.set_flush_denormal(False)
    res["digest"] = log.digest()
    res["steps"] = log.steps
    res["probes"] = probes
    res["states"] = sorted(set(states))
    res["nontrivial"] = probes.get("inputs_nonrepresentable", 0) > 0
    return res


def simplify(plan: Dict[str, Any]) -> Iterable[Dict[str, Any]]:
    for i, op in enumerate(plan["ops"]):
        n = min(op["n"], 4096)
        if n > 1:
            h = n // 2
            for skip, cnt in ((op.get("skip", 0), h), (op.get("skip", 0) + h, n - h)):
                c = copy.deepcopy(plan)
                c["ops"][i].update(skip=skip, n=cnt)
                yield c
