"""sim_track -- C18: scale tracking is purely observational; its metrics are the true
statistics.

The recorded metrics are mutable state shared across runs of one tracked module: every
forward replaces the Metrics objects, every backward writes into whatever object the shared
node.meta dict holds at that moment.  The simulator contributes the *run history* (forward-only
after forward+backward, backward from changing subsets of outputs, Dynamo resets in between);
after every run the outputs / gradients are compared bitwise with the untracked module and the
metrics of every node with statistics recomputed from tensors captured by an independent
interpreter (clone + hooks) fed with the very placeholder values of that run.
"""

from __future__ import annotations

import copy
import math
import re
from typing import Any, Dict, Iterable, List, Optional, Tuple

from simkit import core
from simkit.core import Violation
from simkit.runner import empty_result

PROPERTY = "C18"
NAME = "sim_track"
NEED_DYNAMO = True
COMPONENTS = {
    "real": ["unit_scaling.transforms.track_scales (ScaleTrackingBackend / Interpreter / AutogradFunction, Metrics)",
             "unit_scaling.utils.analyse_module (_DeepTracer, ScaleTrackingInterpreter, ScaleTracker, _annotate)",
             "TorchDynamo tracing (phase track)", "torch autograd"],
    "stub": ["observation wrapper around the tracking backend taken from tracked.backends (instance-level run_node of the returned fx.Interpreter records values and hooks gradients; installed by the harness, not in the library)"],
}
ASSUMPTIONS = [
    "metrics are compared with float64 recomputation at 1e-5 relative (float32 reductions); std accepts either normalisation; a 1-element tensor's std may be nan",
    "a change of grad mode (torch.no_grad) makes TorchDynamo compile a second graph and scales_graph() shows the most recently *compiled* one, which need not be the one that ran last (observed: history [backward run, no_grad run, backward run] reports the no_grad graph); this is noted in DESIGN.md as an observation, the property quantifies over forward-only and forward+backward runs; a change of batch size (30% of the runs of batch-agnostic programs) is covered: the dynamic-shape graph compiled for the second size serves every later size",
    "the numbers printed by analyse_module carry 3 significant digits: compared at 6e-3 relative",
    "analyse_module leaves .grad populated on parameters and inputs (it calls backward()); logged as an observation, values and gradients *produced* afterwards are what is compared",
    "seeded search: a clean batch is evidence, not proof",
]
RULE = (
    "phase track: generated program in float32 or (a quarter of the runs) float64 (C16 vocabulary + fan-out, bool/int intermediates, several outputs, inputs with zeros) wrapped by "
    "track_scales, then a history of 2-6 runs (forward-only | backward from a seeded subset of outputs; input values k; another batch size in 30% of the runs) with Dynamo "
    "resets and, in 40% of runs, other programs tracked earlier in the same process; phase analyse: analyse_module (recurse_modules on|off) "
    "on the untransformed module vs an independent capture of the same fx graph, in half of the runs after other programs were analysed in the process; "
    "non-trivial = >= 2 runs of different kinds; distinct = (program op-kind sequence, run-kind sequence)"
)


def phases(tier: str) -> List[Dict[str, Any]]:
    if tier == "quick":
        return [
            {"name": "track", "runs": 256, "heavy": True, "timeout": 240, "wall": 100},
            {"name": "analyse", "runs": 160, "heavy": True, "timeout": 240, "wall": 60},
            {"name": "known", "runs": 2, "heavy": True, "timeout": 240, "wall": 60},
        ]
    return [
        {"name": "track", "runs": 6000, "heavy": True, "timeout": 400, "wall": 1800},
        {"name": "analyse", "runs": 4000, "heavy": True, "timeout": 400, "wall": 900},
        {"name": "known", "runs": 2, "heavy": True, "timeout": 240, "wall": 60},
    ]


def generate(seed: int, tier: str, phase: str) -> Dict[str, Any]:
    r = core.rng(seed, "workload")
    plan: Dict[str, Any] = {"phase": phase, "timeout": 300, "shrink_budget": 320, "pseed": r.randrange(1 << 30),
                            "opts": {"vocab": "track", "depth": [1, r.choice([3, 6, 10])], "avoid": []}}
    ops: List[Dict[str, Any]] = []
    if phase == "known":
        # deterministic probe of the recorded finding D13: a stored program (expanded IR, so it
        # does not depend on the generator) on which tracking changes the last bits
        plan["spec_file"] = "engines/known_specs/d13_track_rounding.json"
        plan["ops"] = [{"op": "run", "mode": "bwd_subset", "k": 1, "gseed": 1, "mask": [True, False, False]}]
        return plan
    if phase == "analyse":
        if r.random() < 0.5:
            # history: a different program was analysed earlier in this process (anything the
            # library keeps between analyses is shared state)
            ops.append({"op": "other", "oseed": r.randrange(1 << 30), "n": r.choice([1, 2])})
        for _ in range(r.choice([1, 2])):
            ops.append({"op": "analyse", "k": r.randrange(3), "gseed": r.randrange(4), "recurse": r.random() < 0.75})
        plan["ops"] = ops
        return plan
    plan["f64"] = r.random() < 0.25  # the whole module and its inputs in float64
    if r.random() < 0.4:
        ops.append({"op": "other", "oseed": r.randrange(1 << 30), "n": r.choice([1, 2])})
    kinds = ["bwd", "bwd", "fwd", "bwd_subset", "reset"]  # no torch.no_grad() runs: a grad-mode switch compiles a second graph (see ASSUMPTIONS)
    for _ in range(r.choice([2, 3, 4, 5, 6])):
        k = r.choice(kinds)
        if k == "reset":
            ops.append({"op": "reset"})
        else:
            ops.append({"op": "run", "mode": k, "k": r.randrange(3), "gseed": r.randrange(4),
                        "mask": [r.random() < 0.5 for _ in range(3)], "bshape": r.random() < 0.3})
    if not any(o["op"] == "run" for o in ops):
        ops.append({"op": "run", "mode": "bwd", "k": 0, "gseed": 0, "mask": [True, True, True]})
    plan["ops"] = ops
    return plan


# ------------------------------------------------------------------------------------
# independent statistics and capture


def stats(t: Any) -> Dict[str, float]:
    import numpy as np

    a = t.detach().to("cpu").double().numpy().reshape(-1)
    n = a.size
    ab = np.abs(a)
    out = {"mean_abs": float(ab.mean()) if n else float("nan"), "abs_mean": float(abs(a.mean())) if n else float("nan"),
           "abs_max": float(ab.max()) if n else float("nan"), "abs_min": float(ab.min()) if n else float("nan"),
           "numel": n, "f64": str(t.dtype) == "torch.float64"}
    out["std_unbiased"] = float(a.std(ddof=1)) if n > 1 else float("nan")
    out["std_biased"] = float(a.std(ddof=0)) if n else float("nan")
    return out


def _close(x: float, y: float, rel: float = 1e-5) -> bool:
    if math.isnan(x) or math.isnan(y):
        return math.isnan(x) and math.isnan(y)
    if x == y:  # also +-inf (a deep product chain may overflow float32)
        return True
    if math.isinf(x) or math.isinf(y):
        return False
    return abs(x - y) <= rel * max(abs(x), abs(y)) + 1e-30


def metrics_mismatch(data: Any, ref: Dict[str, float]) -> Optional[str]:
    # statistics of a float64 tensor are reductions in float64: compared five orders tighter
    f64 = bool(ref.get("f64"))
    rel = 1e-10 if f64 else 1e-5
    for f in ("mean_abs", "abs_mean", "abs_max", "abs_min"):
        if not _close(float(getattr(data, f)), ref[f], rel):
            # |mean| suffers cancellation: compare it relative to mean|x|
            if f == "abs_mean" and abs(float(data.abs_mean) - ref[f]) <= rel * max(ref["mean_abs"], 1e-30):
                continue
            return f"{f}: recorded {getattr(data, f)!r}, recomputed {ref[f]!r}"
    if int(data.numel) != ref["numel"]:
        return f"numel: recorded {data.numel}, actual {ref['numel']}"
    s = float(data.std)
    # a float32 standard deviation goes through squared deviations: below sqrt(float32 min normal)
    # ~ 1e-19 it cannot be resolved (an implementation via var().sqrt() legitimately returns 0)
    tiny_floor = 1e-150 if f64 else 2e-19
    tiny = abs(s) <= tiny_floor and ref["std_biased"] <= tiny_floor
    # a float32 std of a (nearly) constant tensor carries the rounding of the mean: an absolute
    # error of a few float32 ulps of the largest element
    floor = (1e-12 if f64 else 2e-6) * ref["abs_max"] if not math.isnan(ref["abs_max"]) else 0.0
    near = any(not math.isnan(r_) and abs(s - r_) <= floor for r_ in (ref["std_unbiased"], ref["std_biased"]))
    if not (tiny or near or _close(s, ref["std_unbiased"], rel) or _close(s, ref["std_biased"], rel)):
        return f"std: recorded {s!r}, recomputed {ref['std_unbiased']!r} (unbiased) / {ref['std_biased']!r}"
    return None


def make_capture() -> Any:
    import torch
    from torch import fx

    class Capture(fx.Interpreter):
        def __init__(self, gm: Any) -> None:
            super().__init__(gm)
            self.fwd: Dict[str, Dict[str, float]] = {}
            self.bwd: Dict[str, Dict[str, float]] = {}
            self.is_float: Dict[str, bool] = {}
            self.seen: Dict[int, Any] = {}

        def run_node(self, n: Any) -> Any:
            out = super().run_node(n)
            fl = isinstance(out, torch.Tensor) and out.is_floating_point()
            self.is_float[n.name] = fl
            if fl:
                self.fwd[n.name] = stats(out)
                if id(out) in self.seen and out.requires_grad:
                    # an op that returns its argument itself (eval dropout): give this node its
                    # own autograd edge, so the hook sees the gradient from *its* consumers only
                    out = out.view_as(out)
                self.seen[id(out)] = out
                if out.requires_grad:
                    name = n.name

                    def hook(g: Any, name: str = name) -> None:
                        self.bwd[name] = stats(g)

                    out.register_hook(hook)
            return out

    return Capture


# ------------------------------------------------------------------------------------


def _opseq(spec: Dict[str, Any]) -> List[str]:
    return [st["op"] for st in spec["prog"]]


def execute(plan: Dict[str, Any]) -> Dict[str, Any]:
    import random

    import torch
    import torch._dynamo
    from torch import fx

    from engines import tworld as tw
    from models import proggen, programs

    res = empty_result()
    log = core.EventLog()
    faults: Dict[str, Dict[str, int]] = {}
    probes: Dict[str, int] = {}
    states: List[str] = []

    def probe(name: str, k: int = 1) -> None:
        probes[name] = probes.get(name, 0) + k

    if plan.get("spec_file"):
        import json
        import os

        with open(os.path.join(core.VERIF, plan["spec_file"])) as f:
            spec = json.load(f)["spec"]
    elif plan.get("spec"):
        spec = plan["spec"]  # an explicit (shrunk) program replaces the generated one
    else:
        spec = proggen.generate(random.Random(plan["pseed"]), plan["opts"])
    sig = "/".join(_opseq(spec))
    res["opseq"].append("prog:" + sig)
    original = programs.ProgModule(spec)
    inputs = [programs.make_inputs(spec, 90 + k) for k in range(3)]
    if plan.get("f64") and plan["phase"] != "analyse":
        original = original.double()
        inputs = [[t.double() if t.is_floating_point() else t for t in ins] for ins in inputs]
        probe("float64_modules")
    try:
        if plan["phase"] == "analyse":
            _analyse(plan, spec, original, inputs, res, log, probe, states, sig)
        else:
            _track(plan, spec, original, inputs, res, log, probe, faults, states, sig)
    except Violation as v:
        res["violation"] = v.as_dict()
    res["digest"] = log.digest()
    res["steps"] = log.steps
    res["faults"] = faults
    res["probes"] = probes
    res["states"] = sorted(set(states))
    return res


def _track(plan: Dict[str, Any], spec: Dict[str, Any], original: Any, inputs: Any, res: Dict[str, Any], log: Any,
           probe: Any, faults: Dict[str, Any], states: List[str], sig: str) -> None:
    from models import programs as _programs
    import torch
    import torch._dynamo
    from torch import fx
    import unit_scaling.transforms as T

    from engines import tworld as tw

    obs: Dict[str, Any] = {"fwd": {}, "bwd": {}, "is_float": {}, "graphs": 0, "interp": None}

    class ObservingBackend:
        """Wraps the tracking backend taken from tracked.backends: the callable it returns
        (an fx.Interpreter) gets an instance-level run_node that records, for every node, the
        statistics of the value handed on to the consumers and -- through a tensor hook on that
        very tensor -- of the total gradient that reaches it."""

        def __init__(self, inner: Any) -> None:
            self.inner = inner
            self.__qualname__ = getattr(inner, "__qualname__", type(inner).__qualname__)

        def __call__(self, gm: Any, example_inputs: Any) -> Any:
            interp = self.inner(gm, example_inputs)
            if not (isinstance(interp, fx.Interpreter) and hasattr(interp, "run_node")):
                obs["interp"] = "unknown"
                return interp
            orig_run_node = interp.run_node
            orig_placeholder = interp.placeholder

            def placeholder(target: Any, args: Any, kwargs: Any) -> Any:
                v = orig_placeholder(target, args, kwargs)
                obs["args"].append(v)  # the raw placeholder values of this run, in graph order
                return v

            interp.placeholder = placeholder  # type: ignore[method-assign]

            def run_node(n: Any) -> Any:
                out = orig_run_node(n)
                fl = isinstance(out, torch.Tensor) and out.is_floating_point()
                obs["is_float"][n.name] = fl
                if fl:
                    # a tracking implementation hands a fresh tensor to the consumers of every
                    # float node; if it hands on the very object of an earlier node, the hook
                    # below cannot tell the two nodes' gradients apart (checked separately)
                    prev = obs["handed_on"].get(id(out))
                    if prev is not None and prev[1] is out:
                        obs["aliased"].append((n.name, prev[0]))
                    obs["handed_on"][id(out)] = (n.name, out)
                    obs["fwd"][n.name] = stats(out)
                    if out.requires_grad:
                        def hook(g: Any, name: str = n.name) -> None:
                            obs["bwd"][name] = stats(g)

                        out.register_hook(hook)
                return out

            interp.run_node = run_node  # type: ignore[method-assign]
            obs["interp"] = interp
            obs["graphs"] += 1
            return interp

    try:
        tracked = T.track_scales(original)
    except Exception as e:
        raise Violation("observational", "track_scales_raised", f"{type(e).__name__}: {str(e)[:300]}")
    tracked.backends[-1] = ObservingBackend(tracked.backends[-1])
    snap = tw.state_snapshot(original)
    kinds: List[str] = []
    deferred: List[Violation] = []
    refdone: List[bool] = []
    alt: Dict[str, Any] = {"ok": None, "inputs": None}
    for i, op in enumerate(plan["ops"]):
        where = f"after op#{i} {op['op']} program {sig}"
        if op["op"] == "reset":
            torch._dynamo.reset()
            d = faults.setdefault("dynamo.reset", {"planned": 0, "fired": 0})
            d["planned"] += 1
            d["fired"] += 1
            res["opseq"].append("reset")
            continue
        if op["op"] == "other":
            _run_others(plan, op, probe, analyse=False)
            res["opseq"].append("other")
            continue
        cur_inputs = inputs[op["k"]]
        if op.get("bshape"):
            # another batch size (first dimension + 1 on every input of rank >= 2), for programs
            # that are batch-agnostic: TorchDynamo compiles another graph for the same module
            if alt["ok"] is None:
                try:
                    ov = {inp["name"]: [inp["shape"][0] + 1] + list(inp["shape"][1:]) for inp in spec["inputs"]
                          if len(inp["shape"]) >= 2}
                    alt["inputs"] = [_programs.make_inputs(spec, 190 + kk, overrides=ov) for kk in range(3)]
                    if plan.get("f64"):
                        alt["inputs"] = [[t.double() if t.is_floating_point() else t for t in ins] for ins in alt["inputs"]]
                    tw.run(original, original, tw.clone_inputs(alt["inputs"][0]), 0, backward=False)
                    alt["ok"] = bool(ov)
                except Exception:
                    alt["ok"] = False
            if alt["ok"]:
                cur_inputs = alt["inputs"][op["k"]]
                probe("runs_with_another_batch_size")
        mode = op["mode"]
        bwd = mode not in ("fwd", "nograd")
        ng = mode == "nograd"
        mask = op["mask"] if mode == "bwd_subset" else None
        obs["fwd"], obs["bwd"], obs["is_float"] = {}, {}, {}
        obs["args"], obs["handed_on"], obs["aliased"] = [], {}, []
        g0 = obs["graphs"]
        try:
            got = tw.run(tracked, tracked, tw.clone_inputs(cur_inputs), op["gseed"], backward=bwd, out_mask=mask,
                         no_grad=ng)
        except Exception as e:
            raise Violation("observational", "tracked_call_raised", f"{type(e).__name__}: {str(e)[:400]} {where}")
        # (a) purely observational: bit-identical to the unwrapped module
        want = tw.run(original, original, tw.clone_inputs(cur_inputs), op["gseed"], backward=bwd, out_mask=mask,
                      no_grad=ng)
        d = tw.diff(got, want)
        if d:
            tol = plan.get("rounding_tol")
            vals = tw.diff({"outs": got["outs"]}, {"outs": want["outs"]}, tol or 1e-5)
            grs = None if vals else (not tw.grads_close_globally(got, want, tol or 1e-5))
            if (vals or grs) and tw.within_rounding_band(
                    got, want, lambda j: _programs.Reference(spec, jitter=j), original, cur_inputs, op["gseed"],
                    bwd, no_grad=ng, out_mask=mask):
                # the program itself amplifies rounding noise: still only a last-bits difference
                vals = grs = None
            if vals:
                raise Violation("observational", "values_changed", f"{d} {where}")
            if grs:
                raise Violation("observational", "gradients_changed", f"{d} {where}")
            if tol is None:
                # float-rounding-level difference: reported at the end of the run unless
                # something else fails first.  It is attributed to the recorded mechanism (D13:
                # an identity autograd node with clone() forward / clone() backward behind every
                # float node of the captured graph) only if a harness-built instrumentation of
                # exactly that kind reproduces the tracked run bit for bit; any other source of
                # last-bits differences is a violation of its own class.
                cls = "last_bits"
                if not refdone:
                    refdone.append(True)
                    rd = _ref_identity_diff(original, got, cur_inputs, op["gseed"], bwd, mask, ng)
                    probe("last_bits_attribution_runs")
                    if rd:
                        cls = "last_bits_unattributed"
                        d = f"{d}; tracked vs clone/clone identity instrumentation: {rd}"
                deferred.append(Violation("observational", cls, f"{d} {where}"))
        d = tw.state_equal(original, snap)
        if d:
            raise Violation("observational", "original_state_changed", f"{d} {where}")
        # (b) the metrics are the true statistics
        if obs["interp"] == "unknown" or obs["interp"] is None:
            res["notes"].append("tracking backend did not return an fx.Interpreter: metrics not observable")
            continue
        if obs["graphs"] - g0 > 1:
            res["notes"].append("several graphs compiled in one forward (graph break): metrics not compared")
            continue
        graph = tracked.scales_graph()
        nfloat = nbwd = 0
        for n in graph.nodes:
            if n.op == "output":
                continue
            if n.name not in obs["is_float"]:
                continue
            fl = obs["is_float"][n.name]
            m = n.meta.get("metrics")
            if not fl:
                if m is not None or n.meta.get("outputs_float_tensor"):
                    raise Violation("metrics", "non_float_node_instrumented", f"node {n.name} {where}")
                continue
            nfloat += 1
            if m is None:
                raise Violation("metrics", "float_node_without_metrics", f"node {n.name} {where}")
            dd = metrics_mismatch(m.fwd, obs["fwd"][n.name])
            if dd:
                raise Violation("metrics", "forward_metrics_wrong", f"node {n.name}: {dd} {where}")
            ref_b = obs["bwd"].get(n.name) if bwd else None
            if (m.bwd is None) != (ref_b is None):
                raise Violation("metrics", "backward_metrics_presence",
                                f"node {n.name}: recorded bwd {'present' if m.bwd is not None else 'None'}, "
                                f"gradient {'reached' if ref_b is not None else 'did not reach'} it in this run "
                                f"(run kinds so far {kinds + [mode]}) {where}")
            if ref_b is not None:
                nbwd += 1
                dd = metrics_mismatch(m.bwd, ref_b)
                if dd:
                    raise Violation("metrics", "backward_metrics_wrong", f"node {n.name}: {dd} {where}")
        if bwd and obs.get("aliased") and mask is None:
            # ground truth for aliased nodes from an independent second execution of the same
            # graph with the same placeholder values (each node gets its own autograd edge there)
            cap = make_capture()(obs["interp"].module)
            outs2 = cap.run(*obs["args"])
            outs2 = tuple(outs2) if isinstance(outs2, (tuple, list)) else (outs2,)
            if len(outs2) == len(got["outs"]):
                gs2 = tw.grad_seeds(outs2, op["gseed"])
                sel2 = [(o, g) for o, g in zip(outs2, gs2) if g is not None]
                leaves = [a for a in obs["args"] if isinstance(a, torch.Tensor) and a.is_floating_point() and a.requires_grad]
                if sel2 and leaves:
                    torch.autograd.grad([o for o, _ in sel2], leaves, [g for _, g in sel2], allow_unused=True)
                by_name = {n.name: n for n in graph.nodes}
                for name, other in obs["aliased"]:
                    m = by_name[name].meta.get("metrics") if name in by_name else None
                    if m is None:
                        continue
                    ref_b = cap.bwd.get(name)
                    if (m.bwd is None) != (ref_b is None):
                        raise Violation("metrics", "backward_metrics_presence",
                                        f"node {name} (handed on the same tensor object as node {other}): recorded bwd "
                                        f"{'present' if m.bwd is not None else 'None'}, gradient "
                                        f"{'reached' if ref_b is not None else 'did not reach'} its consumers {where}")
                    if ref_b is not None:
                        dd = metrics_mismatch(m.bwd, ref_b)
                        if dd:
                            raise Violation("metrics", "backward_metrics_wrong",
                                            f"node {name} (handed on the same tensor object as node {other}): {dd} {where}")
                probe("aliased_nodes_checked_by_second_execution", len(obs["aliased"]))
        kinds.append(mode)
        probe("runs_compared")
        probe("float_nodes_compared", nfloat)
        probe("backward_metrics_compared", nbwd)
        if len(kinds) >= 2 and kinds[-2] != "fwd" and mode == "fwd":
            probe("forward_only_after_backward_run")
        if len(kinds) >= 2 and mode == "bwd_subset":
            probe("subset_backward_after_other_run")
        log.add("run", mode, op["k"], tw.result_digest(got))
        res["opseq"].append("run:" + mode)
    states.append(f"nout={len(spec['outputs'])}|" + ">".join(kinds))
    res["nontrivial"] = len(kinds) >= 2
    if deferred:
        raise deferred[0]


_PAIR = re.compile(r"^\s*(?:def forward\(.*\):|(\w+) = .*?);?\s+\(-> ([^,]+), <- ([^)]+)\)\s*$")


def _run_others(plan: Dict[str, Any], op: Dict[str, Any], probe: Any, analyse: bool) -> None:
    """History: other programs go through the same library entry point earlier in this process.
    Their results are not judged here (each is some other run's main program)."""
    import random

    import torch

    from engines import tworld as tw
    from models import proggen, programs

    for j in range(op.get("n", 1)):
        try:
            ospec = proggen.generate(random.Random(op["oseed"] + j), plan["opts"])
            omod = programs.ProgModule(ospec)
            oin = programs.make_inputs(ospec, 70 + j)
            if analyse:
                from unit_scaling.utils import analyse_module

                one = copy.deepcopy(ospec)
                one["outputs"] = ospec["outputs"][:1]
                n_in = len(one["inputs"])
                src = "def forward(self, " + ", ".join(f"a{i}" for i in range(n_in)) + "):\n    return _base(self, " + \
                    ", ".join(f"a{i}" for i in range(n_in)) + ")\n"
                ns: Dict[str, Any] = {"_base": programs.ProgModule.forward}
                exec(src, ns)
                Fixed = type("FixedProg", (programs.ProgModule,), {"forward": ns["forward"]})
                fm = Fixed(one)
                out0 = tw.run(fm, fm, tw.clone_inputs(oin), 0, backward=False)["outs"][0]
                if isinstance(out0, torch.Tensor) and out0.is_floating_point():
                    analyse_module(fm, tuple(tw.clone_inputs(oin)), torch.ones_like(out0), syntax_highlight=False)
            else:
                from unit_scaling.transforms import track_scales

                tm = track_scales(omod)
                tw.run(tm, tm, tw.clone_inputs(oin), 0, backward=True)
            probe("other_programs_earlier_in_process")
        except Exception:
            probe("other_program_failed")


def _analyse(plan: Dict[str, Any], spec: Dict[str, Any], original: Any, inputs: Any, res: Dict[str, Any], log: Any,
             probe: Any, states: List[str], sig: str) -> None:
    import torch
    from torch import fx
    from unit_scaling.utils import _DeepTracer, analyse_module

    from engines import tworld as tw
    from models import programs

    # analyse_module needs one tensor output and a fixed-arity forward
    one = copy.deepcopy(spec)
    one["outputs"] = spec["outputs"][:1]
    n_in = len(one["inputs"])
    src = "def forward(self, " + ", ".join(f"a{i}" for i in range(n_in)) + "):\n    return _base(self, " + \
        ", ".join(f"a{i}" for i in range(n_in)) + ")\n"
    ns: Dict[str, Any] = {"_base": programs.ProgModule.forward}
    exec(src, ns)
    Fixed = type("FixedProg", (programs.ProgModule,), {"forward": ns["forward"]})
    mod = Fixed(one)
    mod.load_state_dict(original.state_dict())
    snap = tw.state_snapshot(mod)
    Capture = make_capture()
    states.append("analyse")
    for op in plan["ops"]:
        where = f"analyse_module program {sig}"
        if op["op"] == "other":
            _run_others(plan, op, probe, analyse=True)
            continue
        xin = tw.clone_inputs(inputs[op["k"]])
        before = tw.run(mod, mod, tw.clone_inputs(inputs[op["k"]]), op["gseed"])
        out0 = before["outs"][0]
        if not (isinstance(out0, torch.Tensor) and out0.is_floating_point()):
            return
        up = torch.randn(out0.shape, generator=torch.Generator().manual_seed(op["gseed"] + 11))
        try:
            text = analyse_module(mod, tuple(xin), up, recurse_modules=bool(op.get("recurse", True)),
                                  syntax_highlight=False)
        except Exception as e:
            res["notes"].append("analyse_module: program not fx-traceable (" + type(e).__name__ + ")")
            return
        # observational
        d = tw.state_equal(mod, snap)
        if d:
            raise Violation("observational", "analyse_module_changed_state", f"{d} {where}")
        after = tw.run(mod, mod, tw.clone_inputs(inputs[op["k"]]), op["gseed"])
        d = tw.diff(before, after)
        if d:
            raise Violation("observational", "analyse_module_changed_results", f"{d} {where}")
        if any(p.grad is not None for p in mod.parameters()):
            res["notes"].append("analyse_module leaves .grad populated on parameters (not demanded)")
            for p in mod.parameters():
                p.grad = None
        # independent capture of the same fx graph
        tracer = _DeepTracer(recurse_modules=bool(op.get("recurse", True)))
        graph = tracer.trace(mod)
        gm = fx.GraphModule(tracer.root, graph)
        cap = Capture(gm)
        xin2 = tw.clone_inputs(inputs[op["k"]])
        out = cap.run(*xin2)
        leaves = [t for t in xin2 if t.is_floating_point() and t.requires_grad] + list(mod.parameters())
        torch.autograd.grad([out], leaves, [up], allow_unused=True)
        printed: Dict[str, Tuple[str, str]] = {}
        for line in text.splitlines():
            mt = re.match(r"^\s*(\w+) = .*;\s+\(-> ([^,]+), <- ([^)]+)\)\s*$", line)
            if mt:
                printed[mt.group(1)] = (mt.group(2).strip(), mt.group(3).strip())
        ncmp = 0
        # the `def forward(...)` line carries one annotation per float placeholder
        head = next((ln for ln in text.splitlines() if ln.lstrip().startswith("def forward")), "")
        head_pairs = re.findall(r"\(-> ([^,()]+), <- ([^()]+)\)", head)
        float_ph = [n.name for n in graph.nodes if n.op == "placeholder" and n.name in cap.fwd]
        if len(head_pairs) > len(float_ph):
            raise Violation("metrics", "annotation_on_non_float_value",
                            f"{len(head_pairs)} placeholder annotations for {len(float_ph)} float inputs {where}")
        if len(head_pairs) == len(float_ph):
            for name, (f_s, _b) in zip(float_ph, head_pairs):
                if f_s.strip() != "n/a":
                    v = float(f_s)
                    rr = cap.fwd[name]
                    if not (any(_close(v, x_, 6e-3) for x_ in (rr["std_unbiased"], rr["std_biased"]))
                            or (math.isnan(v) and math.isnan(rr["std_unbiased"]))):
                        raise Violation("metrics", "analyse_forward_std_wrong",
                                        f"input {name}: printed {f_s}, recomputed {rr['std_unbiased']!r} {where}")
                    ncmp += 1
        # the reference comes from a second execution: a gradient that is pure cancellation noise
        # (orders of magnitude below the others) is not reproducible to 3 digits between two
        # executions whose autograd graphs differ by the tracking nodes
        def _mx(dd: Dict[str, Dict[str, float]]) -> float:
            vals = [v["std_biased"] for v in dd.values() if not math.isnan(v["std_biased"]) and not math.isinf(v["std_biased"])]
            return max(vals) if vals else 0.0

        floor = {"forward": 1e-6 * _mx(cap.fwd), "backward": 1e-6 * _mx(cap.bwd)}
        for name, (f_s, b_s) in printed.items():
            if name not in cap.fwd:
                raise Violation("metrics", "annotation_on_non_float_value", f"{name} {where}")
            for label, s_txt, ref in (("forward", f_s, cap.fwd[name]), ("backward", b_s, cap.bwd.get(name))):
                if s_txt == "n/a":
                    if label == "forward":
                        raise Violation("metrics", "analyse_forward_missing", f"{name}: forward scale printed as n/a for an observed float tensor (true std {ref['std_unbiased']!r}) {where}")
                    if ref is not None:
                        raise Violation("metrics", "analyse_backward_missing", f"{name}: printed n/a but a gradient reached it (true std {ref['std_unbiased']!r}) {where}")
                    continue
                if ref is None:
                    raise Violation("metrics", "analyse_backward_spurious", f"{name}: printed {s_txt} but no gradient reached it {where}")
                v = float(s_txt)
                r1, r2 = ref["std_unbiased"], ref["std_biased"]
                ok = any(_close(v, rr, 6e-3) or abs(v - rr) <= floor[label] for rr in (r1, r2)) or \
                    (math.isnan(v) and math.isnan(r1))
                if not ok:
                    raise Violation("metrics", f"analyse_{label}_std_wrong", f"{name}: printed {s_txt}, recomputed {r1!r} {where}")
                ncmp += 1
        for name in cap.fwd:
            node = next((n for n in graph.nodes if n.name == name), None)
            if node is not None and node.op in ("call_function", "call_method", "get_attr") and name not in printed:
                # every float intermediate of the printed code carries an annotation
                if re.search(rf"^\s*{re.escape(name)} = ", text, re.M):
                    raise Violation("metrics", "analyse_annotation_missing", f"{name} {where}")
        probe("analyse_values_compared", ncmp)
        probe("analyse_runs")
        res["opseq"].append("analyse")
        res["nontrivial"] = True
        log.add("analyse", core.tensor_digest(before["outs"]))


def _ref_identity_diff(original: Any, got: Any, cur_inputs: Any, gseed: int, bwd: bool, mask: Any, ng: bool) -> Optional[str]:
    """Reference instrumentation for the attribution of finding D13: the same captured graph, run
    by a plain fx.Interpreter that puts an identity autograd node (forward x.clone(), backward
    g.clone()) behind every node producing a float tensor.  Returns the difference between the
    tracked run `got` and this reference (None when bit-identical, or when the reference cannot
    be built - then nothing is attributed away from the recorded class)."""
    import torch
    from torch import fx
    import unit_scaling.transforms as T

    from engines import tworld as tw

    class _RefIdentity(torch.autograd.Function):
        @staticmethod
        def forward(ctx: Any, t: Any) -> Any:  # type: ignore[override]
            return t.clone()

        @staticmethod
        def backward(ctx: Any, g: Any) -> Any:  # type: ignore[override]
            return g.clone()

    class _RefInterp(fx.Interpreter):
        def run_node(self, n: Any) -> Any:
            out = super().run_node(n)
            if isinstance(out, torch.Tensor) and out.is_floating_point():
                out = _RefIdentity.apply(out)
            return out

        def __call__(self, *a: Any, **k: Any) -> Any:
            return super().run(*a, **k)

    try:
        ref = T.track_scales(original)
        ref.backends[-1] = lambda gm, ex: _RefInterp(gm)
        want = tw.run(ref, ref, tw.clone_inputs(cur_inputs), gseed, backward=bwd, out_mask=mask, no_grad=ng)
    except Exception:
        return None
    return tw.diff(got, want) or None


def neutralise(plan: Dict[str, Any], finding: Dict[str, Any]) -> Optional[Dict[str, Any]]:
    if finding.get("id") == "D13" and plan.get("phase") in ("track", "known"):
        c = copy.deepcopy(plan)
        c["rounding_tol"] = 1e-5  # counterfactual: compared at float-rounding level
        return c
    return None


def simplify(plan: Dict[str, Any]) -> Iterable[Dict[str, Any]]:
    if plan.get("spec_file"):
        return
    import random

    from models import proggen, shrinkspec

    base = plan.get("spec") or proggen.generate(random.Random(plan["pseed"]), plan["opts"])
    for cand in shrinkspec.candidates(base):
        c = copy.deepcopy(plan)
        c["spec"] = cand
        yield c
    if plan.get("spec"):
        return
    lo, hi = plan["opts"]["depth"]
    for new_hi in (1, 2, 4):
        if new_hi < hi:
            c = copy.deepcopy(plan)
            c["opts"]["depth"] = [1, new_hi]
            yield c
    for s in range(4):
        c = copy.deepcopy(plan)
        c["pseed"] = s
        c["opts"]["depth"] = [1, 2]
        yield c
