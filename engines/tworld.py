"""Shared helpers of the transform engines (C15-C18): applying transforms by name, running
a module / a reference with seeded upstream gradients, bitwise comparison, storage sets.
One simulated process = one forked child (Dynamo caches, the allow_in_graph registry and
patched class attributes are process-global)."""

from __future__ import annotations

from typing import Any, Dict, List, Optional, Sequence, Tuple

import torch
from torch import nn

from models import programs
from simkit import core
from simkit.core import Violation

LOSSLESS = [8, 23, "nearest", 0]
FORMATS = {
    "lossless": (LOSSLESS, LOSSLESS),
    "e5m2rn": ([5, 2, "nearest", 0], [5, 2, "nearest", 0]),
    "e4m3rn_e5m2rn": ([4, 3, "nearest", 0], [5, 2, "nearest", 0]),
    "e4m3sr": ([4, 3, "stochastic", 0], [5, 2, "stochastic", 0]),
    "e4m3sr4": ([4, 3, "stochastic", 4], [5, 2, "stochastic", 1]),
    "e3m2rn_e2m1sr": ([3, 2, "nearest", 0], [2, 1, "stochastic", 0]),
    "fp8": ([4, 3, "stochastic", 0], [5, 2, "stochastic", 0]),  # what simulate_fp8 documents
}


def fmt_obj(t: Sequence[Any]) -> Any:
    from unit_scaling.formats import FPFormat

    return FPFormat(t[0], t[1], t[2], t[3])


def apply_transform_by_name(mod: nn.Module, t: Dict[str, Any]) -> nn.Module:
    """t = {"T": "unit_scale"|"simulate_fp8"|"simulate_format"|"track_scales"|"compile",
            "fmt": key of FORMATS, "replace": {helper name: U function name}}"""
    import unit_scaling.functional as U
    import unit_scaling.transforms as T

    name = t["T"]
    if name == "unit_scale":
        import torch.nn.functional as F

        rep = {(getattr(F, k[2:]) if k.startswith("F.") else programs.HELPERS[k]): getattr(U, v)
               for k, v in (t.get("replace") or {}).items()}
        return T.unit_scale(mod, replace=rep) if rep else T.unit_scale(mod)
    if name == "simulate_fp8":
        return T.simulate_fp8(mod)
    if name == "simulate_format":
        f, b = FORMATS[t["fmt"]]
        return T.simulate_format(mod, fmt_obj(f), fmt_obj(b))
    if name == "track_scales":
        return T.track_scales(mod)
    if name == "compile":
        return T.compile(mod)
    raise ValueError(name)


def chain_mode(chain: List[Dict[str, Any]]) -> Dict[str, Any]:
    """Reference mode of a chain of transforms: unit scaling on/off, formats, replace."""
    us = any(t["T"] == "unit_scale" for t in chain)
    q = None
    rep: Dict[str, str] = {}
    for t in chain:
        if t["T"] == "simulate_fp8":
            q = FORMATS["fp8"]
        elif t["T"] == "simulate_format":
            q = FORMATS[t["fmt"]]
        elif t["T"] == "unit_scale":
            rep = dict(t.get("replace") or {})
    return {"us": us, "q": q, "replace": rep,
            "compiled": any(t["T"] == "compile" for t in chain)}


def grad_seeds(outs: Sequence[Any], gseed: int) -> List[Optional[torch.Tensor]]:
    g = torch.Generator().manual_seed(gseed)
    res: List[Optional[torch.Tensor]] = []
    for o in outs:
        if isinstance(o, torch.Tensor) and o.is_floating_point() and o.requires_grad:
            res.append(torch.randn(o.shape, generator=g, dtype=o.dtype))
        else:
            res.append(None)
    return res


def _as_tuple(o: Any) -> Tuple[Any, ...]:
    if isinstance(o, (tuple, list)):
        return tuple(o)
    return (o,)


def run(fn: Any, holder: nn.Module, inputs: List[torch.Tensor], gseed: int,
        backward: bool = True, out_mask: Optional[List[bool]] = None, no_grad: bool = False) -> Dict[str, Any]:
    """Call fn(*inputs) and, if asked, differentiate sum_i <out_i, g_i> w.r.t. every float
    input and every parameter of `holder` (autograd.grad: no .grad is written)."""
    if no_grad:
        with torch.no_grad():
            outs = _as_tuple(fn(*inputs))
        return {"outs": [o.detach().clone() if isinstance(o, torch.Tensor) else o for o in outs], "grads": None}
    outs = _as_tuple(fn(*inputs))
    res: Dict[str, Any] = {"outs": [o.detach().clone() if isinstance(o, torch.Tensor) else o for o in outs],
                           "grads": None}
    if backward:
        gs = grad_seeds(outs, gseed)
        sel = [(o, g) for i, (o, g) in enumerate(zip(outs, gs))
               if g is not None and (out_mask is None or out_mask[i % len(out_mask)])]
        names = [n for n, p in holder.named_parameters() if p.requires_grad]  # frozen parameters get no gradient
        params = [p for _, p in holder.named_parameters() if p.requires_grad]
        fin = [t for t in inputs if isinstance(t, torch.Tensor) and t.is_floating_point() and t.requires_grad]
        if sel and (params or fin):
            grads = torch.autograd.grad([o for o, _ in sel], fin + params, [g for _, g in sel],
                                        allow_unused=True)
            res["grads"] = {"in": [None if g is None else g.detach().clone() for g in grads[:len(fin)]],
                            "params": {n: (None if g is None else g.detach().clone())
                                       for n, g in zip(names, grads[len(fin):])}}
        else:
            res["grads"] = {"in": [], "params": {}}
    return res


def clone_inputs(inputs: List[torch.Tensor]) -> List[torch.Tensor]:
    out = []
    for t in inputs:
        c = t.detach().clone()
        if t.is_floating_point():
            c.requires_grad_(t.requires_grad)
        out.append(c)
    return out


def _teq(a: Any, b: Any, tol: Optional[float]) -> bool:
    if a is None or b is None:
        return a is None and b is None
    if not isinstance(a, torch.Tensor) or not isinstance(b, torch.Tensor):
        return a == b
    if a.shape != b.shape or a.dtype != b.dtype:
        return False
    if tol is None or not a.is_floating_point():
        return bool(torch.equal(a, b)) or bool(
            a.is_floating_point() and torch.equal(torch.nan_to_num(a, nan=12345.0), torch.nan_to_num(b, nan=12345.0)))
    scale = max(float(a.abs().max()) if a.numel() else 0.0, float(b.abs().max()) if b.numel() else 0.0, 1e-30)
    return bool(((a - b).abs().max() if a.numel() else torch.tensor(0.0)) <= tol * scale)


def diff(a: Dict[str, Any], b: Dict[str, Any], tol: Optional[float] = None) -> Optional[str]:
    """None if the two run results agree (bitwise unless tol), else where they differ."""
    if len(a["outs"]) != len(b["outs"]):
        return f"number of outputs {len(a['outs'])} vs {len(b['outs'])}"
    for i, (x, y) in enumerate(zip(a["outs"], b["outs"])):
        if not _teq(x, y, tol):
            return f"output[{i}]" + _mag(x, y)
    ga, gb = a.get("grads"), b.get("grads")
    if (ga is None) != (gb is None):
        return "one side has gradients, the other not"
    if ga is None:
        return None
    for i, (x, y) in enumerate(zip(ga["in"], gb["in"])):
        if not _teq(x, y, tol):
            return f"grad(input[{i}])" + _mag(x, y)
    if set(ga["params"]) != set(gb["params"]):
        return "parameter name sets differ"
    for n in sorted(ga["params"]):
        if not _teq(ga["params"][n], gb["params"][n], tol):
            return f"grad(param {n})" + _mag(ga["params"][n], gb["params"][n])
    return None


def _pairs(a: Dict[str, Any], b: Dict[str, Any]) -> List[Tuple[str, Any, Any]]:
    out = [(f"output[{i}]", x, y) for i, (x, y) in enumerate(zip(a["outs"], b["outs"]))]
    ga, gb = a.get("grads"), b.get("grads")
    if ga is not None and gb is not None:
        out += [(f"grad(input[{i}])", x, y) for i, (x, y) in enumerate(zip(ga["in"], gb["in"]))]
        out += [(f"grad(param {n})", ga["params"][n], gb["params"].get(n)) for n in sorted(ga["params"])]
    return out


def within_rounding_band(got: Dict[str, Any], want: Dict[str, Any], make_ref: Any, holder: Any, inputs: Any,
                         gseed: int, backward: bool, no_grad: bool = False, out_mask: Any = None,
                         samples: int = 3, factor: float = 8.0, eps: float = 2.0 ** -23) -> bool:
    """True if every tensor of `got` differs from `want` by no more than `factor` x what
    one-ulp perturbations of every intermediate of the reference program produce (measured, per
    tensor, over `samples` seeded perturbation patterns).  make_ref(jitter) -> Reference."""
    plain = make_ref(None)
    base = run(lambda *xs: plain.run(holder, xs), holder, clone_inputs(inputs), gseed, backward=backward,
               out_mask=out_mask, no_grad=no_grad)
    band: Dict[str, float] = {}
    for s in range(samples):
        jr = make_ref((eps, s + 1))
        jit = run(lambda *xs: jr.run(holder, xs), holder, clone_inputs(inputs), gseed, backward=backward,
                  out_mask=out_mask, no_grad=no_grad)
        for name, x, y in _pairs(jit, base):
            if isinstance(x, torch.Tensor) and isinstance(y, torch.Tensor) and x.shape == y.shape and x.numel():
                d = (x.double() - y.double()).abs()
                d = d[torch.isfinite(d)]
                band[name] = max(band.get(name, 0.0), float(d.max()) if d.numel() else 0.0)
    for name, x, y in _pairs(got, want):
        if (x is None) != (y is None):
            return False
        if x is None or not isinstance(x, torch.Tensor):
            continue
        if x.shape != y.shape or x.dtype != y.dtype:
            return False
        if not x.numel() or torch.equal(x, y):
            continue
        d = (x.double() - y.double()).abs()
        if bool(torch.isnan(d).any()):
            if not bool((torch.isnan(x) == torch.isnan(y)).all()):
                return False
            d = d[~torch.isnan(d)]
        if d.numel() and float(d.max()) > factor * band.get(name, 0.0):
            return False
    return True


def grads_close_globally(a: Dict[str, Any], b: Dict[str, Any], rel: float) -> bool:
    """True if every gradient pair differs by at most rel x (largest |value| among all
    gradients): float-rounding level, irrespective of how small an individual tensor is."""
    ga, gb = a.get("grads"), b.get("grads")
    if ga is None or gb is None:
        return ga is None and gb is None
    pairs = list(zip(ga["in"], gb["in"])) + [(ga["params"][n], gb["params"].get(n)) for n in ga["params"]]
    scale = 0.0
    for x, y in pairs:
        for t in (x, y):
            if isinstance(t, torch.Tensor) and t.numel():
                scale = max(scale, float(t.abs().max()))
    for x, y in pairs:
        if (x is None) != (y is None):
            return False
        if x is None:
            continue
        if x.shape != y.shape or x.dtype != y.dtype:
            return False
        if x.numel() and float((x - y).abs().max()) > rel * max(scale, 1e-30):
            return False
    return True


def _mag(x: Any, y: Any) -> str:
    try:
        if x is None or y is None:
            return f" (None vs tensor: {x is None}/{y is None})"
        if x.shape != y.shape or x.dtype != y.dtype:
            return f" shape/dtype {tuple(x.shape)}{x.dtype} vs {tuple(y.shape)}{y.dtype}"
        d = (x.double() - y.double()).abs().max().item()
        return f" max|diff|={d:.3e} max|a|={x.double().abs().max().item():.3e}"
    except Exception:
        return ""


def result_digest(r: Dict[str, Any]) -> str:
    return core.tensor_digest([r["outs"], r.get("grads")])


def storages(mod: nn.Module) -> set:
    s = set()
    for t in list(mod.parameters()) + list(mod.buffers()):
        if t.numel():
            s.add(t.untyped_storage().data_ptr())
    return s


def sharing_structure(mod: nn.Module) -> List[Tuple[str, ...]]:
    """Which parameter / buffer names of the module tree refer to one and the same tensor
    object (tied weights, a layer registered twice): sorted groups of names."""
    groups: Dict[int, List[str]] = {}
    for n, p in mod.named_parameters(remove_duplicate=False):
        groups.setdefault(id(p), []).append("P:" + n)
    for n, b in mod.named_buffers(remove_duplicate=False):
        groups.setdefault(id(b), []).append("B:" + n)
    return sorted(tuple(sorted(v)) for v in groups.values())


def sharing_diff(src: nn.Module, derived: nn.Module) -> Optional[str]:
    a, b = sharing_structure(src), sharing_structure(derived)
    if a == b:
        return None
    only_a = [g for g in a if g not in b]
    only_b = [g for g in b if g not in a]
    return f"source has {only_a[:3]}, derived module has {only_b[:3]}"


def state_snapshot(mod: nn.Module) -> Dict[str, torch.Tensor]:
    return {k: v.detach().clone() for k, v in mod.state_dict().items()}


def state_equal(mod: nn.Module, snap: Dict[str, torch.Tensor]) -> Optional[str]:
    sd = mod.state_dict()
    if list(sd.keys()) != list(snap.keys()):
        return "state_dict keys changed"
    for k, v in sd.items():
        if v.dtype != snap[k].dtype or v.shape != snap[k].shape or not torch.equal(v, snap[k]):
            return f"state_dict entry {k} changed"
    return None


def dynamo_patch_restored() -> bool:
    import torch._dynamo.variables.functions as fv

    return fv.UserMethodVariable.call_function is _ORIG_CALL_FUNCTION


try:
    import torch._dynamo.variables.functions as _fv

    _ORIG_CALL_FUNCTION = _fv.UserMethodVariable.call_function
except Exception:  # pragma: no cover
    _ORIG_CALL_FUNCTION = None
