"""sim_param -- C09: u-muP parameter tags survive any history of copies, pickling,
dtype conversions, state-dict loads and transforms; with write faults, torn reads and
restarts at the serialisation seam.

World: a list of live handles (a bare parameter, or a module holding parameters) each
with a reference model (tags, dtype, requires_grad, shadow values, the lr the *original*
received from the library).  Operations reference handles by index modulo the number of
live handles, so every subsequence of a plan is a valid plan (shrinking needs no repair).
"""

from __future__ import annotations

import copy
import errno
import io
import json
import os
import pickle
import subprocess
import sys
from typing import Any, Dict, Iterable, List, Optional, Tuple

from simkit import core
from simkit.core import Violation
from simkit.runner import empty_result

PROPERTY = "C09"
NAME = "sim_param"
NEED_DYNAMO = True  # transforms are applied (never called), importing them pulls Dynamo
COMPONENTS = {
    "real": [
        "unit_scaling.parameter (instance copy/pickle hooks)",
        "unit_scaling._modules",
        "unit_scaling.transforms.apply_transform / unit_scale re-initialisation (deepcopy inside; never traced)",
        "unit_scaling.optim.scaled_parameters + SGD/Adam/AdamW constructors",
        "copy.deepcopy",
        "pickle protocols 2-5",
        "torch.save / torch.load(weights_only=False), zip and legacy containers",
        "nn.Module.to / half / load_state_dict",
    ],
    "stub": [
        "file objects handed to pickle / torch.save (in-memory, with ENOSPC and truncation faults)",
        "process restart in the quick tier (bytes reloaded in the same interpreter); the thorough tier also reloads in a fresh interpreter",
    ],
}
ASSUMPTIONS = [
    "bit flips in serialised bytes are not injected: pickle offers no integrity protection, so wrong data after corruption is not a defect of this library",
    "pickling a transformed module whose forward is a local closure may raise (CPython limitation); such an operation yields no object and is logged, not flagged",
    "the lr scale of the original is taken from the library at creation time (the factor itself is property C10, not re-derived here)",
    "seeded search: a clean batch is evidence, not proof",
]
RULE = (
    "plans = seeded op sequences (length 0-6 quick / 0-10 thorough after one create) over "
    "{deepcopy, pickle p2-5, torch.save/load zip+legacy, module.to/half, load_state_dict (into fresh twin / "
    "between live twins), requires_grad_ toggle, library transform, save-with-ENOSPC, torn load, "
    "restart} x 4 tags x depth {None,1,7} x 11 holder kinds; a run is non-trivial if it has >= 2 ops; "
    "distinct = distinct op-kind sequences incl. the create kind"
)

TAGS = ["weight", "bias", "norm", "output"]
DEPTHS = [None, 1, 7]
KINDS = [
    "param", "param", "holder", "holder", "linear", "readout", "layernorm", "rmsnorm",
    "embedding", "conv1d", "depthseq", "mlp", "mixed", "depthlist", "transformer", "mhsa",
]
DTYPES = ["float64", "float16", "float32", "bfloat16", "double()", "float()", "bfloat16()", "type(float64)", "type(float32)"]
TRANSFORMS = ["simulate_fp8", "simulate_format", "track_scales", "compile", "unit_scale"]
MAX_HANDLES = 8


def phases(tier: str) -> List[Dict[str, Any]]:
    if tier == "quick":
        return [
            {"name": "nofault", "runs": 8000, "batch": 125, "timeout": 240, "wall": 100},
            {"name": "faults", "runs": 8000, "batch": 125, "timeout": 240, "wall": 100},
            {"name": "known", "runs": 5, "explicit": True, "timeout": 240, "wall": 60},
        ]
    return [
        {"name": "nofault", "runs": 120000, "batch": 500, "timeout": 1200, "wall": 900},
        {"name": "faults", "runs": 120000, "batch": 500, "timeout": 1200, "wall": 900},
        {"name": "restart_real", "runs": 160, "batch": 5, "timeout": 600, "wall": 600},
        {"name": "known", "runs": 3, "explicit": True, "timeout": 240, "wall": 60},
    ]


def explicit_plans(tier: str, phase: str) -> List[Dict[str, Any]]:
    """Deterministic probe of the recorded finding D17: dtype conversion under
    torch.__future__.set_overwrite_module_params_on_conversion(True)."""
    plans = []
    for kind, dtype in (("linear", "float64"), ("layernorm", "float16"), ("holder", "bfloat16()")):
        create = {"op": "create", "kind": kind, "tseed": 5, "dims": [3, 4], "flag": True,
                  "tag": "output", "depth": 7, "shape": [2, 3]}
        plans.append({"phase": "known", "overwrite_params_on_conversion": True, "timeout": 300, "shrink_budget": 0,
                      "ops": [create, {"op": "to", "h": 0, "dtype": dtype}]})
    for kind in ("linear", "layernorm"):
        create = {"op": "create", "kind": kind, "tseed": 5, "dims": [3, 4], "flag": True}
        plans.append({"phase": "known", "timeout": 300, "shrink_budget": 0,
                      "ops": [create, {"op": "lsd", "h": 0, "tseed": 9, "assign": True}]})
    return plans


def neutralise(plan: Dict[str, Any], finding: Dict[str, Any]) -> Optional[Dict[str, Any]]:
    if finding.get("id") == "D20" and any(o.get("assign") for o in plan["ops"]):
        c = copy.deepcopy(plan)
        for o in c["ops"]:
            o.pop("assign", None)  # counterfactual: the default in-place copy of load_state_dict
        return c
    if finding.get("id") == "D17" and plan.get("overwrite_params_on_conversion"):
        c = copy.deepcopy(plan)
        c["overwrite_params_on_conversion"] = False  # counterfactual: torch's default conversion mode
        return c
    return None


# ------------------------------------------------------------------------------------
# generation


def _gen_create(r: Any) -> Dict[str, Any]:
    kind = r.choice(KINDS)
    op: Dict[str, Any] = {"op": "create", "kind": kind, "tseed": r.randrange(1 << 30)}
    if kind in ("param", "holder", "mixed"):
        op["tag"] = r.choice(TAGS)
        op["depth"] = r.choice(DEPTHS)
        rank = r.choice([1, 2, 2, 3])
        op["shape"] = [r.choice([2, 3, 5, 8]) for _ in range(rank)]
    elif kind == "depthseq":
        op["n"] = r.choice([1, 2, 7])
        op["dims"] = [r.choice([2, 3, 4]), r.choice([2, 3, 4])]
    else:
        op["dims"] = [r.choice([2, 3, 4, 8]), r.choice([2, 3, 5, 8])]
        op["flag"] = r.random() < 0.7
    return op


def generate(seed: int, tier: str, phase: str) -> Dict[str, Any]:
    r = core.rng(seed, "workload")
    maxlen = 6 if tier == "quick" else 10
    n = r.choice(list(range(0, maxlen + 1)))
    ops: List[Dict[str, Any]] = [_gen_create(r)]
    # swarm: each run enables a random subset of op kinds
    alphabet = [
        "deepcopy", "deepcopy", "pickle", "tsave", "to", "lsd", "lsd_into", "reqgrad",
        "transform", "create", "drop", "churn",
    ]
    faulty = ["save_enospc", "load_torn", "restart"]
    enabled = [a for a in dict.fromkeys(alphabet) if r.random() < 0.75] or ["deepcopy"]
    pool = [a for a in alphabet if a in enabled]
    if phase in ("faults", "restart_real"):
        fe = [f for f in faulty if r.random() < 0.7] or [r.choice(faulty)]
        if phase == "restart_real":
            fe = ["restart"]
        pool = pool + fe * 2
    for _ in range(n):
        k = r.choice(pool)
        op: Dict[str, Any] = {"op": k, "h": r.randrange(64)}
        if k == "create":
            op = _gen_create(r)
        elif k == "churn":
            # short-lived parameters of one shape but different tags, created and freed in turn
            # (object addresses get re-used: anything keyed by id() becomes history-dependent)
            op["shape"] = [r.choice([2, 3, 5]), r.choice([2, 4])]
            op["tags"] = [[r.choice(TAGS), r.choice(DEPTHS)] for _ in range(r.choice([3, 4, 6]))]
            op["tseed"] = r.randrange(1 << 30)
        elif k == "pickle":
            op["proto"] = r.choice([2, 3, 4, 5])
        elif k == "tsave":
            op["legacy"] = r.random() < 0.4
        elif k == "to":
            op["dtype"] = r.choice(DTYPES)
        elif k == "lsd":
            op["tseed"] = r.randrange(1 << 30)
        elif k == "lsd_into":
            op["src"] = r.randrange(64)
        elif k == "reqgrad":
            op["which"] = r.randrange(16)
        elif k == "transform":
            op["T"] = r.choice(TRANSFORMS)
        elif k == "save_enospc":
            op["via"] = r.choice(["pickle", "tsave", "tsave_legacy"])
            op["proto"] = r.choice([2, 3, 4, 5])
            op["k"] = r.choice([1, 1, 2, 3, 5, 9])
        elif k == "load_torn":
            op["via"] = r.choice(["pickle", "tsave", "tsave_legacy"])
            op["proto"] = r.choice([2, 3, 4, 5])
            op["frac"] = r.choice([0.0, 0.1, 0.5, 0.9, 0.97, 0.999])
        elif k == "restart":
            op["via"] = r.choice(["pickle", "tsave"])
            op["proto"] = r.choice([2, 3, 4, 5])
            op["real"] = phase == "restart_real"
        ops.append(op)
    if phase == "restart_real" and not any(o["op"] == "restart" for o in ops):
        ops.append({"op": "restart", "h": 0, "via": "pickle", "proto": 4, "real": True})
    return {"phase": phase, "ops": ops, "timeout": 300, "shrink_budget": 400}


# ------------------------------------------------------------------------------------
# world


class PModel:
    __slots__ = ("name", "tag", "depth", "requires_grad", "shadow", "lr_ref")

    def __init__(self, name: str, tag: str, depth: Optional[int], requires_grad: bool,
                 shadow: Any, lr_ref: Dict[str, float]) -> None:
        self.name, self.tag, self.depth = name, tag, depth
        self.requires_grad, self.shadow, self.lr_ref = requires_grad, shadow, lr_ref

    def clone(self) -> "PModel":
        return PModel(self.name, self.tag, self.depth, self.requires_grad,
                      self.shadow.clone(), dict(self.lr_ref))


class Handle:
    def __init__(self, kind: str, obj: Any, spec: Dict[str, Any], params: List[PModel],
                 born: str, transformed: bool = False) -> None:
        self.kind, self.obj, self.spec, self.params = kind, obj, spec, params
        self.born = born
        self.transformed = transformed
        self.terminal = False

    def live_params(self) -> List[Tuple[PModel, Any]]:
        if self.kind == "param":
            return [(self.params[0], self.obj)]
        named = dict(self.obj.named_parameters())
        out = []
        for pm in self.params:
            if pm.name not in named:
                raise Violation("is_parameter", "parameter_missing",
                                f"{pm.name} no longer a registered parameter")
            out.append((pm, named[pm.name]))
        return out


def _build(spec: Dict[str, Any]) -> Any:
    import torch
    from torch import nn
    import unit_scaling as uu

    torch.manual_seed(spec["tseed"])
    kind = spec["kind"]
    if kind == "param":
        return uu.Parameter(torch.randn(*spec["shape"]), spec["tag"], spec["depth"])
    a, b = spec["dims"]
    if kind == "linear":
        return uu.Linear(a, b, bias=spec["flag"])
    if kind == "readout":
        return uu.LinearReadout(a, b, bias=spec["flag"])
    if kind == "layernorm":
        return uu.LayerNorm(a, elementwise_affine=True, bias=spec["flag"])
    if kind == "rmsnorm":
        return uu.RMSNorm(a, elementwise_affine=True)
    if kind == "embedding":
        return uu.Embedding(a + 1, b)
    if kind == "conv1d":
        return uu.Conv1d(a, b, 3, bias=spec["flag"])
    if kind == "depthseq":
        dims = [a] + [b] * spec["n"]
        return uu.DepthSequential(
            *[uu.Linear(dims[i], dims[i + 1], bias=(i % 2 == 0)) for i in range(spec["n"])]
        )
    if kind == "mlp":
        return uu.MLP(a)
    if kind == "depthlist":
        return uu.DepthModuleList([uu.Linear(a, a, bias=True), uu.LayerNorm(a, elementwise_affine=True),
                                   uu.Linear(a, b)])
    if kind == "transformer":
        return uu.TransformerLayer(4, heads=2, mhsa_tau=0.3, mlp_tau=0.6, is_causal=spec["flag"])
    if kind == "mhsa":
        return uu.MHSA(4, heads=2, is_causal=spec["flag"])
    raise ValueError(kind)


# Holder classes must be importable for pickle (stored by reference): they are created
# lazily (torch import) and registered as attributes of this module.
_HOLDER_CLS: Dict[str, Any] = {}


def _holder_classes() -> Dict[str, Any]:
    if _HOLDER_CLS:
        return _HOLDER_CLS
    import torch
    from torch import nn
    import unit_scaling as uu

    class Holder(nn.Module):
        def __init__(self, shape: List[int], tag: str, depth: Optional[int]) -> None:
            super().__init__()
            self.p = uu.Parameter(torch.randn(*shape), tag, depth)
            self.register_buffer("buf", torch.randn(3))

        def forward(self, x: Any) -> Any:
            return x * self.p.sum()

    class Mixed(Holder):
        def __init__(self, shape: List[int], tag: str, depth: Optional[int]) -> None:
            super().__init__(shape, tag, depth)
            self.inner = uu.Linear(3, 2, bias=True)
            self.ln = uu.LayerNorm(2, elementwise_affine=True)

    mod = sys.modules[__name__]
    for cls in (Holder, Mixed):
        cls.__module__ = __name__
        cls.__qualname__ = cls.__name__
        setattr(mod, cls.__name__, cls)
    _HOLDER_CLS.update(holder=Holder, mixed=Mixed)
    return _HOLDER_CLS


def build(spec: Dict[str, Any]) -> Any:
    import torch

    if spec["kind"] in ("holder", "mixed"):
        torch.manual_seed(spec["tseed"])
        return _holder_classes()[spec["kind"]](spec["shape"], spec["tag"], spec["depth"])
    return _build(spec)


def _lr_refs(p: Any) -> Dict[str, float]:
    import unit_scaling.optim as uo

    out = {}
    for name, f in (("adam", uo.lr_scale_func_adam), ("sgd_none", uo.lr_scale_func_sgd(None)),
                    ("sgd_out", uo.lr_scale_func_sgd("to_output_scale"))):
        out[name] = float(uo.scaled_parameters([p], f, lr=1.0)[0]["lr"])
    for name, cls in (("SGD", uo.SGD), ("Adam", uo.Adam), ("AdamW", uo.AdamW)):
        out[name] = float(cls([p]).param_groups[0]["lr"])
    return out


def make_handle(spec: Dict[str, Any]) -> Handle:
    from unit_scaling.parameter import has_parameter_data

    obj = build(spec)
    if spec["kind"] == "param":
        pm = PModel("", obj.mup_type, obj.mup_scaling_depth, obj.requires_grad,
                    obj.detach().clone(), _lr_refs(obj))
        return Handle("param", obj, spec, [pm], "create")
    pms = []
    for name, p in obj.named_parameters():
        if not has_parameter_data(p):  # construction-time tagging is C08's business
            continue
        pms.append(PModel(name, p.mup_type, p.mup_scaling_depth, p.requires_grad,
                          p.detach().clone(), _lr_refs(p)))
    return Handle("module", obj, spec, pms, "create")


# ------------------------------------------------------------------------------------
# invariants


def check_handle(h: Handle, where: str) -> None:
    import torch
    from torch import nn
    import unit_scaling.optim as uo
    from unit_scaling.parameter import has_parameter_data

    for pm, p in h.live_params():
        ctx = f"{where}; handle born by {h.born}; param '{pm.name}' kind={h.spec['kind']}"
        if not isinstance(p, nn.Parameter):
            raise Violation("is_parameter", "not_nn_parameter", f"{type(p)} {ctx}")
        if not has_parameter_data(p):
            raise Violation("tags_preserved", "has_parameter_data_false",
                            f"mup_type={getattr(p, 'mup_type', '<missing>')} {ctx}")
        if p.mup_type != pm.tag:
            raise Violation("tags_preserved", "mup_type_changed",
                            f"{p.mup_type} != {pm.tag} {ctx}")
        if p.mup_scaling_depth != pm.depth or type(p.mup_scaling_depth) is not type(pm.depth):
            raise Violation("tags_preserved", "depth_changed",
                            f"{p.mup_scaling_depth!r} != {pm.depth!r} {ctx}")
        if p.dtype != pm.shadow.dtype or tuple(p.shape) != tuple(pm.shadow.shape):
            raise Violation("values_preserved", "dtype_or_shape",
                            f"{p.dtype}{tuple(p.shape)} vs {pm.shadow.dtype}{tuple(pm.shadow.shape)} {ctx}")
        if not torch.equal(p.detach(), pm.shadow):
            raise Violation("values_preserved", "values_differ", ctx)
        if p.requires_grad != pm.requires_grad:
            raise Violation("trainable_preserved", "requires_grad_changed",
                            f"{p.requires_grad} != {pm.requires_grad} {ctx}")
        try:
            got = {}
            for name, f in (("adam", uo.lr_scale_func_adam),
                            ("sgd_none", uo.lr_scale_func_sgd(None)),
                            ("sgd_out", uo.lr_scale_func_sgd("to_output_scale"))):
                got[name] = float(uo.scaled_parameters([p], f, lr=1.0)[0]["lr"])
            for name, cls in (("SGD", uo.SGD), ("Adam", uo.Adam), ("AdamW", uo.AdamW)):
                opt = cls([p])
                if opt.param_groups[0]["params"][0] is not p:
                    raise Violation("optimizer_accepts", "wrong_param_object", ctx)
                got[name] = float(opt.param_groups[0]["lr"])
        except Violation:
            raise
        except Exception as e:
            raise Violation("optimizer_accepts", "optimizer_rejects",
                            f"{type(e).__name__}: {e} {ctx}")
        if got != pm.lr_ref:
            raise Violation("optimizer_accepts", "lr_scale_differs",
                            f"{got} != {pm.lr_ref} {ctx}")


# ------------------------------------------------------------------------------------
# serialisation seam


class FaultyWriter(io.BytesIO):
    """In-memory file whose k-th write raises ENOSPC (k counts from 1)."""

    def __init__(self, k: int) -> None:
        super().__init__()
        self.k = k
        self.n = 0
        self.fired = False

    def write(self, b: Any) -> int:  # type: ignore[override]
        self.n += 1
        if self.n == self.k:
            self.fired = True
            raise OSError(errno.ENOSPC, "No space left on device (injected)")
        return super().write(b)


def dump(obj: Any, via: str, proto: int, f: Any) -> None:
    import torch

    if via == "pickle":
        pickle.dump(obj, f, protocol=proto)
    elif via == "tsave":
        torch.save(obj, f, pickle_protocol=max(2, min(proto, 5)))
    else:
        torch.save(obj, f, _use_new_zipfile_serialization=False,
                   pickle_protocol=max(2, min(proto, 5)))


def load(data: bytes, via: str) -> Any:
    import torch

    if via == "pickle":
        return pickle.loads(data)
    return torch.load(io.BytesIO(data), weights_only=False)


_PICKLE_LIMITATION = ("Can't pickle", "Can't get local", "cannot pickle", "local object")


def _is_closure_limit(e: BaseException) -> bool:
    return isinstance(e, (AttributeError, pickle.PicklingError, TypeError)) and any(
        s in str(e) for s in _PICKLE_LIMITATION
    )


# ------------------------------------------------------------------------------------
# execution


def _cast_shadow(pm: PModel, dtype: Any) -> None:
    pm.shadow = pm.shadow.to(dtype)


def _clone_models(h: Handle) -> List[PModel]:
    return [pm.clone() for pm in h.params]


def _derived(h: Handle, obj: Any, born: str) -> Handle:
    n = Handle(h.kind, obj, h.spec, _clone_models(h), born, h.transformed)
    n.terminal = h.terminal
    return n


def execute(plan: Dict[str, Any]) -> Dict[str, Any]:
    import torch
    from torch import nn

    res = empty_result()
    log = core.EventLog()
    overwrite = bool(plan.get("overwrite_params_on_conversion"))
    torch.__future__.set_overwrite_module_params_on_conversion(overwrite)
    handles: List[Handle] = []
    faults: Dict[str, Dict[str, int]] = {}
    probes: Dict[str, int] = {}
    states: List[str] = []

    def fault(kind: str, fired: bool) -> None:
        d = faults.setdefault(kind, {"planned": 0, "fired": 0})
        d["planned"] += 1
        d["fired"] += int(fired)

    def probe(name: str) -> None:
        probes[name] = probes.get(name, 0) + 1

    def add(h: Handle) -> None:
        handles.append(h)
        if len(handles) > MAX_HANDLES:
            handles.pop(1 if len(handles) > 1 else 0)

    def record(op: Dict[str, Any]) -> None:
        summary = []
        for h in handles:
            for pm, p in h.live_params():
                summary.append([h.born, pm.name, str(p.dtype), core.tensor_digest(p),
                                getattr(p, "mup_type", None),
                                getattr(p, "mup_scaling_depth", None), p.requires_grad])
                states.append(f"{h.spec['kind']}|{h.born}|{p.dtype}|{p.requires_grad}|{h.transformed}")
        log.add(op.get("op"), summary)

    def check_all(where: str) -> None:
        for h in handles:
            check_handle(h, where)

    try:
        for i, op in enumerate(plan["ops"]):
            k = op["op"]
            where = f"after op#{i} {k}"
            if k == "create":
                add(make_handle(op))
                res["opseq"].append("create:" + op["kind"])
                check_all(where)
                record(op)
                continue
            if k == "churn":
                import gc

                import unit_scaling as uu
                import unit_scaling.optim as uo

                g_ = torch.Generator().manual_seed(op["tseed"])
                for j, (tag_, depth_) in enumerate(op["tags"]):
                    # a burst of short-lived parameters of one shape: enough of them that some
                    # land on addresses freed by the previous burst whatever the heap looks like
                    burst = [uu.Parameter(torch.randn(*op["shape"], generator=g_), tag_, depth_) for _ in range(12)]
                    for p_ in burst:
                        lr_p = float(uo.scaled_parameters([p_], uo.lr_scale_func_adam, lr=1.0)[0]["lr"])
                        c_ = copy.deepcopy(p_)
                        lr_c = float(uo.scaled_parameters([c_], uo.lr_scale_func_adam, lr=1.0)[0]["lr"])
                        if lr_p != lr_c:
                            raise Violation("optimizer_accepts", "lr_scale_differs",
                                            f"short-lived {tag_}/{depth_} parameter of shape {op['shape']}: lr scale {lr_p} but "
                                            f"its deep copy gets {lr_c} {where}")
                        del c_
                    tmp = Handle("param", burst[0], {"kind": "param"},
                                 [PModel("", tag_, depth_, True, burst[0].detach().clone(), _lr_refs(burst[0]))], "create")
                    check_handle(tmp, where + f" (short-lived parameter {tag_}/{depth_})")
                    del tmp, burst, p_
                    gc.collect(0)
                probe("churn_ops")
                res["opseq"].append("churn")
                check_all(where)
                record(op)
                continue
            if not handles:
                continue
            h = handles[op["h"] % len(handles)]
            tagk = k
            if k == "deepcopy":
                c = copy.deepcopy(h.obj)
                add(_derived(h, c, "deepcopy"))
                if h.born == "deepcopy":
                    probe("copy_of_copy")
            elif k in ("pickle", "tsave"):
                via = "pickle" if k == "pickle" else ("tsave_legacy" if op.get("legacy") else "tsave")
                tagk = via
                buf = io.BytesIO()
                try:
                    dump(h.obj, via, op.get("proto", 4), buf)
                except Exception as e:
                    if h.transformed and _is_closure_limit(e):
                        res["notes"].append("pickle of transformed module raised (closure)")
                        res["opseq"].append(tagk + ":raised")
                        check_all(where)
                        record(op)
                        continue
                    raise Violation("op_succeeds", f"{via}_dump_raised",
                                    f"{type(e).__name__}: {e} {where} born {h.born}")
                try:
                    c = load(buf.getvalue(), via)
                except Exception as e:
                    raise Violation("op_succeeds", f"{via}_load_raised",
                                    f"{type(e).__name__}: {e} {where} born {h.born}")
                add(_derived(h, c, via))
                if h.born in ("deepcopy",):
                    probe("pickle_of_copy")
            elif k == "to":
                if h.kind != "module":
                    continue
                if op["dtype"].startswith("type("):  # module.type(dtype)
                    dt = getattr(torch, op["dtype"][5:-1])
                    r = h.obj.type(dt)
                elif op["dtype"].endswith("()"):  # the method spelling: module.double() / .float() / .bfloat16()
                    dt = {"double()": torch.float64, "float()": torch.float32, "bfloat16()": torch.bfloat16}[op["dtype"]]
                    r = getattr(h.obj, op["dtype"][:-2])()
                else:
                    dt = getattr(torch, op["dtype"])
                    r = h.obj.half() if op["dtype"] == "float16" else h.obj.to(dt)
                if r is not h.obj:
                    raise Violation("op_succeeds", "to_returned_other_object", where)
                for pm in h.params:
                    _cast_shadow(pm, dt)
                tagk = "to:" + op["dtype"]
            elif k == "lsd":
                if h.kind != "module":
                    continue
                spec = dict(h.spec, tseed=op["tseed"])
                twin = make_handle(spec)
                twin.obj.load_state_dict(h.obj.state_dict(), assign=bool(op.get("assign")))
                src = {pm.name: pm for pm in h.params}
                for pm in twin.params:
                    pm.shadow = src[pm.name].shadow.to(pm.shadow.dtype)
                twin.born = "load_state_dict"
                if op.get("assign"):
                    for pm in twin.params:  # assign=True takes dtype and values over as they are
                        pm.shadow = src[pm.name].shadow.clone()
                    try:
                        check_handle(twin, where)
                    except Violation as v:
                        if v.invariant in ("tags_preserved", "is_parameter"):
                            raise Violation("tags_preserved", "lost_on_load_state_dict_assign", v.detail)
                        raise
                add(twin)
            elif k == "lsd_into":
                s = handles[op["src"] % len(handles)]
                if h.kind != "module" or s is h or s.kind != "module":
                    continue
                sig = lambda sp: {a: b for a, b in sp.items() if a != "tseed"}  # noqa: E731
                if sig(s.spec) != sig(h.spec):
                    continue
                h.obj.load_state_dict(s.obj.state_dict())
                src = {pm.name: pm for pm in s.params}
                for pm in h.params:
                    pm.shadow = src[pm.name].shadow.to(pm.shadow.dtype)
                probe("lsd_between_live")
            elif k == "reqgrad":
                lp = h.live_params()
                pm, p = lp[op["which"] % len(lp)]
                if not p.dtype.is_floating_point:
                    continue
                p.requires_grad_(not pm.requires_grad)
                pm.requires_grad = not pm.requires_grad
            elif k == "transform":
                if h.kind != "module":
                    continue
                import unit_scaling.transforms as T
                from unit_scaling.formats import FPFormat

                name = op["T"]
                if h.terminal:
                    # track_scales / compile are documented to come last in a chain
                    continue
                try:
                    if name == "simulate_format":
                        c = T.simulate_format(h.obj, FPFormat(8, 23, "nearest"),
                                              FPFormat(8, 23, "nearest"))
                    else:
                        c = getattr(T, name)(h.obj)
                except Exception as e:
                    raise Violation("op_succeeds", "transform_raised",
                                    f"{name}: {type(e).__name__}: {e} {where}")
                if c is h.obj:
                    raise Violation("op_succeeds", "transform_returned_same_object", where)
                models = _clone_models(h)
                if name == "unit_scale":
                    # documented re-initialisation of Linear/Embedding weights and biases
                    byname = {pm.name: pm for pm in models}
                    for mname, mod in h.obj.named_modules():
                        if isinstance(mod, (nn.Linear, nn.Embedding)):
                            pre = mname + "." if mname else ""
                            w = byname.get(pre + "weight")
                            if w is not None:
                                w.shadow = w.shadow / w.shadow.std()
                            b = byname.get(pre + "bias")
                            if b is not None and getattr(mod, "bias", None) is not None:
                                b.shadow = b.shadow - b.shadow
                nh = Handle(h.kind, c, h.spec, models, "transform:" + name, True)
                nh.terminal = name in ("track_scales", "compile")
                add(nh)
                tagk = "transform:" + name
                if h.transformed:
                    probe("nested_transform")
            elif k == "drop":
                if len(handles) > 1:
                    handles.remove(h)
            elif k == "save_enospc":
                via = op["via"]
                w = FaultyWriter(op["k"])
                raised = None
                try:
                    dump(h.obj, via, op.get("proto", 4), w)
                except Exception as e:
                    raised = e
                if raised is not None and not w.fired:
                    if h.transformed and _is_closure_limit(raised):
                        res["notes"].append("pickle of transformed module raised (closure)")
                        continue
                    raise Violation("op_succeeds", f"{via}_dump_raised",
                                    f"{type(raised).__name__}: {raised} {where}")
                fault("io.enospc", w.fired)
                if w.fired and raised is None:
                    raise Violation("fault_contained", "write_error_swallowed",
                                    f"{via} save reported success although a write failed {where}")
                check_all(where + " (source after failed save)")
                # bounded liveness: the immediate fault-free retry succeeds and is correct
                buf = io.BytesIO()
                try:
                    dump(h.obj, via, op.get("proto", 4), buf)
                    c = load(buf.getvalue(), via)
                except Exception as e:
                    if h.transformed and _is_closure_limit(e):
                        continue
                    raise Violation("fault_contained", "retry_after_enospc_failed",
                                    f"{type(e).__name__}: {e} {where}")
                add(_derived(h, c, via + "+retry"))
                tagk = "save_enospc:" + via
            elif k == "load_torn":
                via = op["via"]
                buf = io.BytesIO()
                try:
                    dump(h.obj, via, op.get("proto", 4), buf)
                except Exception as e:
                    if h.transformed and _is_closure_limit(e):
                        continue
                    raise Violation("op_succeeds", f"{via}_dump_raised",
                                    f"{type(e).__name__}: {e} {where}")
                data = buf.getvalue()
                cut = min(len(data) - 1, int(len(data) * op["frac"]))
                try:
                    c = load(data[:cut], via)
                except Exception:
                    fault("io.torn", True)
                    c = None
                if c is not None:
                    # load returned from a truncated stream: it must still be a right object
                    fault("io.torn", True)
                    probe("torn_load_returned")
                    add(_derived(h, c, via + "+torn"))
                tagk = "load_torn:" + via
            elif k == "restart":
                via = op["via"]
                blobs = []
                for hh in handles:
                    buf = io.BytesIO()
                    try:
                        dump(hh.obj, via, op.get("proto", 4), buf)
                        blobs.append((hh, buf.getvalue()))
                    except Exception as e:
                        if hh.transformed and _is_closure_limit(e):
                            continue
                        raise Violation("op_succeeds", f"{via}_dump_raised",
                                        f"{type(e).__name__}: {e} {where}")
                if op.get("real"):
                    _real_restart(blobs, via)
                    fault("proc.restart_real", True)
                else:
                    fault("proc.restart_stub", True)
                survivors = []
                for hh, data in blobs:
                    models = _clone_models(hh)
                    try:
                        c = load(data, via)
                    except Exception as e:
                        raise Violation("op_succeeds", f"{via}_load_raised",
                                        f"{type(e).__name__}: {e} {where}")
                    survivors.append(_derived(hh, c, "restart:" + via))
                if survivors:
                    handles[:] = survivors  # the old world is gone
                tagk = "restart:" + via
            else:
                raise ValueError(k)
            res["opseq"].append(tagk)
            try:
                check_all(where)
            except Violation as v:
                if overwrite and k == "to" and v.invariant in ("tags_preserved", "is_parameter"):
                    raise Violation("tags_preserved", "lost_on_conversion_with_overwrite_flag", v.detail)
                raise
            record(op)
    except Violation as v:
        res["violation"] = v.as_dict()
    res["digest"] = log.digest()
    res["steps"] = log.steps
    res["faults"] = faults
    res["probes"] = probes
    res["states"] = sorted(set(states))
    return res


def _real_restart(blobs: List[Tuple[Handle, bytes]], via: str) -> None:
    """Reload every surviving byte string in a fresh interpreter (no shared objects) and
    check tags / values / optimiser acceptance there against the model."""
    import base64

    payload = []
    for hh, data in blobs:
        payload.append({
            "data": base64.b64encode(data).decode(),
            "kind": hh.kind,
            "params": [{"name": pm.name, "tag": pm.tag, "depth": pm.depth,
                        "requires_grad": pm.requires_grad, "dtype": str(pm.shadow.dtype),
                        "digest": core.tensor_digest(pm.shadow), "lr_ref": pm.lr_ref}
                       for pm in hh.params],
        })
    path = os.path.join(core.scratch_dir(), f"restart-{os.getpid()}.json")
    with open(path, "w") as f:
        json.dump({"via": via, "items": payload}, f)
    try:
        env = dict(os.environ, VERIF_REPO=core.REPO, PYTHONPATH=core.VERIF)
        out = subprocess.run([sys.executable, "-m", "engines.param_restart_child", path],
                             capture_output=True, text=True, timeout=240, env=env,
                             cwd=core.VERIF)
    finally:
        try:
            os.unlink(path)
        except OSError:
            pass
    last = out.stdout.strip().splitlines()[-1] if out.stdout.strip() else ""
    if out.returncode != 0 or not last.startswith("{"):
        raise RuntimeError(f"restart child failed rc={out.returncode}: {out.stdout[-800:]} {out.stderr[-1500:]}")
    verdict = json.loads(last)
    if verdict.get("violation"):
        v = verdict["violation"]
        raise Violation(v["invariant"], v["culprit"], "in fresh interpreter: " + v["detail"])


# ------------------------------------------------------------------------------------
# shrinking helpers


def simplify(plan: Dict[str, Any]) -> Iterable[Dict[str, Any]]:
    ops = plan["ops"]
    for i, op in enumerate(ops):
        def variant(**kw: Any) -> Dict[str, Any]:
            c = copy.deepcopy(plan)
            c["ops"][i].update(kw)
            return c

        if op["op"] in ("tsave", "pickle", "save_enospc", "load_torn", "restart", "lsd", "transform"):
            c = copy.deepcopy(plan)
            c["ops"][i] = {"op": "deepcopy", "h": op.get("h", 0)}
            yield c
        if op["op"] == "tsave":
            c = copy.deepcopy(plan)
            c["ops"][i] = {"op": "pickle", "h": op.get("h", 0), "proto": 4}
            yield c
        if op["op"] == "create":
            if op["kind"] not in ("param",):
                c = copy.deepcopy(plan)
                c["ops"][i] = {"op": "create", "kind": "param", "tag": op.get("tag", "weight"),
                               "depth": op.get("depth"), "shape": [2, 2], "tseed": 1}
                yield c
            if op.get("depth") is not None:
                yield variant(depth=None)
            if op.get("shape") and op["shape"] != [2, 2]:
                yield variant(shape=[2, 2])
        if "h" in op and op["h"] > 8:
            yield variant(h=op["h"] % 8)
