import sys

from simkit.runner import run_check

if __name__ == "__main__":
    sys.exit(run_check("engines.sim_track"))
