"""Small builder for IR specs (see models/programs.py)."""

from __future__ import annotations

from typing import Any, Dict, List, Optional


class SpecBuilder:
    def __init__(self, seed: int) -> None:
        self.spec: Dict[str, Any] = {"seed": seed, "inputs": [], "params": [], "bufs": [], "mods": [],
                                     "prog": [], "outputs": []}
        self.shapes: Dict[str, List[int]] = {}
        self.kinds: Dict[str, str] = {}
        self._n = 0

    def _name(self, prefix: str) -> str:
        self._n += 1
        return f"{prefix}{self._n}"

    def inp(self, shape: List[int], kind: str = "float", vocab: int = 0, zeros: bool = False) -> str:
        n = self._name("x")
        d: Dict[str, Any] = {"name": n, "shape": list(shape), "kind": kind}
        if kind == "ids":
            d["vocab"] = vocab
        if zeros:
            d["zeros"] = True
        self.spec["inputs"].append(d)
        self.shapes[n] = list(shape)
        self.kinds[n] = kind
        return n

    def param(self, shape: List[int], std: float = 1.0, mean: float = 0.0) -> str:
        n = self._name("p_")
        self.spec["params"].append({"name": n, "shape": list(shape), "std": std, "mean": mean})
        return n

    def buf(self, shape: List[int], kind: str) -> str:
        n = self._name("b_")
        self.spec["bufs"].append({"name": n, "shape": list(shape), "kind": kind})
        return n

    def mod(self, type_: str, *args: Any, tie_to: Optional[str] = None, **kwargs: Any) -> str:
        n = self._name("m_")
        d: Dict[str, Any] = {"name": n, "type": type_, "args": list(args), "kwargs": kwargs}
        if tie_to:
            d["tie_to"] = tie_to
        self.spec["mods"].append(d)
        return n

    def op(self, op: str, args: List[str], shape: Optional[List[int]] = None, kind: str = "float",
           **attrs: Any) -> str:
        n = self._name("v")
        st = {"out": n, "op": op, "args": list(args)}
        st.update(attrs)
        self.spec["prog"].append(st)
        self.shapes[n] = list(shape if shape is not None else self.shapes[args[0]])
        self.kinds[n] = kind
        return n

    def out(self, *names: str) -> Dict[str, Any]:
        self.spec["outputs"] = list(names)
        self.spec["vshapes"] = {k: list(v) for k, v in self.shapes.items()}
        self.spec["vkinds"] = dict(self.kinds)
        return self.spec
