"""The C17 family: small fixed modules as IR specs (MLP, pre-norm residual block, attention
block, a block built from unit-scaled layers), parametrised by sizes and a seed."""

from __future__ import annotations

from typing import Any, Dict

from .builder import SpecBuilder

MEMBERS = ["mlp", "mlp_nn", "resblock", "attn", "uu_block", "embed_res"]


def build(member: str, seed: int, B: int = 3, T: int = 4, D: int = 8, H: int = 16) -> Dict[str, Any]:
    b = SpecBuilder(seed)
    if member == "mlp":
        x = b.inp([B, D])
        w1, b1, w2 = b.param([H, D], D ** -0.5), b.param([H], 0.1), b.param([D, H], H ** -0.5)
        h = b.op("linear", [x], [B, H], w=w1, b=b1)
        h = b.op("gelu", [h])
        y = b.op("linear", [h], [B, D], w=w2, b=None, style="pos")
        return b.out(y)
    if member == "mlp_nn":
        x = b.inp([B, T, D])
        l1, act, l2 = b.mod("Linear", D, H), b.mod("GELU"), b.mod("Linear", H, D, bias=False)
        h = b.op("nn_linear", [x], [B, T, H], mod=l1)
        h = b.op("nn_gelu", [h], mod=act)
        y = b.op("nn_linear", [h], [B, T, D], mod=l2)
        return b.out(y)
    if member == "resblock":
        x = b.inp([B, T, D])
        ln = b.mod("LayerNorm", D)
        l1, l2, head = b.mod("Linear", D, H), b.mod("Linear", H, D), b.mod("Linear", D, 5)
        h = b.op("nn_layer_norm", [x], mod=ln)
        h = b.op("nn_linear", [h], [B, T, H], mod=l1)
        h = b.op("silu", [h])
        h = b.op("nn_linear", [h], [B, T, D], mod=l2)
        s = b.op("add", [x, h])
        y = b.op("nn_linear", [s], [B, T, 5], mod=head)
        return b.out(y)
    if member == "attn":
        x = b.inp([B, T, D])
        lq, lk, lv, lo = (b.mod("Linear", D, D, bias=False) for _ in range(4))
        q = b.op("nn_linear", [x], mod=lq)
        k = b.op("nn_linear", [x], mod=lk)
        v = b.op("nn_linear", [x], mod=lv)
        a = b.op("sdpa", [q, k, v], style="causal")
        o = b.op("nn_linear", [a], mod=lo)
        s = b.op("add", [x, o])
        y = b.op("tanh", [s])
        return b.out(y)
    if member == "uu_block":
        x = b.inp([B, T, D])
        l1, l2 = b.mod("uu.Linear", D, H, bias=True), b.mod("uu.Linear", H, D)
        sp = b.op("u_residual_split", [x], tau=0.5, kind="tuple")
        r = b.op("getitem", [sp], i=0)
        k = b.op("getitem", [sp], i=1)
        h = b.op("uu_linear", [r], [B, T, H], mod=l1)
        h = b.op("u_gelu", [h])
        h = b.op("uu_linear", [h], [B, T, D], mod=l2)
        y = b.op("u_residual_add", [h, k], tau=0.5)
        return b.out(y)
    if member == "embed_res":
        ids = b.inp([B, T], kind="ids", vocab=11)
        emb = b.mod("Embedding", 11, D)
        l1, l2 = b.mod("Linear", D, H), b.mod("Linear", H, D)
        e = b.op("nn_embedding", [ids], [B, T, D], mod=emb)
        h = b.op("nn_linear", [e], [B, T, H], mod=l1)
        h = b.op("gelu", [h], approximate="tanh")
        h = b.op("nn_linear", [h], [B, T, D], mod=l2)
        s = b.op("add", [e, h])
        y = b.op("mul_scalar", [s], c=0.5)
        return b.out(y)
    raise ValueError(member)
