"""Seeded generator of IR programs (see models/programs.py) over the vocabularies of the
C15 / C16 / C18 quantifiers.  A main "stream" value of shape [*batch, D] is transformed step by
step; residual blocks are well nested and their branch only uses values derived from the
skip tensor (plus parameters), so that the recipe is unambiguous.

opts:
  depth      : (lo, hi) number of steps
  vocab      : "quant" (C15) | "unitscale" (C16) | "track" (C18)
  avoid      : set of shape names the caller wants excluded (known-finding shapes)
  force      : optional shape name to include at least once
"""

from __future__ import annotations

from typing import Any, Dict, List, Optional, Set

from .builder import SpecBuilder

KNOWN_SHAPES = ["linear_kw", "sdpa_mask_pos", "plain_add_tail", "skip_plain_sum", "nn_softmax",
                "u_positional_constraint", "helper_replace", "conv1d", "nn_root"]


class Gen:
    def __init__(self, r: Any, opts: Dict[str, Any]) -> None:
        self.r = r
        self.o = opts
        self.vocab = opts.get("vocab", "unitscale")
        self.avoid: Set[str] = set(opts.get("avoid", []))
        self.b = SpecBuilder(r.randrange(1 << 20))
        self.fresh: Set[str] = set()  # outputs of linear/matmul/add with no other user yet
        self.used_shapes: Set[str] = set()
        self.nres = 0
        self.in_branch = 0
        self.has_attention_in_branch = False
        self.helpers_used: Set[str] = set()
        self.lin_params: List[Any] = []
        self.lin_mods: List[Any] = []
        self.extra_outputs: List[str] = []

    # ---------------- helpers
    def shape(self, v: str) -> List[int]:
        return self.b.shapes[v]

    def D(self, v: str) -> int:
        return self.shape(v)[-1]

    def ok(self, name: str) -> bool:
        return name not in self.avoid

    def mark(self, name: str) -> None:
        self.used_shapes.add(name)

    # ---------------- steps
    def linear(self, cur: str, dout: Optional[int] = None) -> str:
        r, b = self.r, self.b
        din = self.D(cur)
        dout = dout or r.choice([4, 6, 8])
        oshape = self.shape(cur)[:-1] + [dout]
        styles = ["pos", "pos", "nobias2", "nn", "nn"]
        if self.ok("linear_kw"):
            styles += ["bias_kw", "weight_kw"]
        if self.vocab == "quant" and self.ok("u_forms"):
            styles += ["u_pos", "uu"]
        st = r.choice(styles)
        if self.o.get("force") == "linear_kw" and "linear_kw" not in self.used_shapes:
            st = r.choice(["bias_kw", "weight_kw"])
        if st in ("bias_kw", "weight_kw"):
            self.mark("linear_kw")
        if st == "nn":
            mods = [c for c in self.lin_mods if c[1] == din and c[2] == dout]
            if mods and r.random() < 0.3:
                m = r.choice(mods)[0]  # the same layer object called a second time
                self.mark("layer_reused")
            elif mods and r.random() < 0.3:
                # a second layer whose weight is the very Parameter of an earlier one
                m = b.mod("Linear", din, dout, bias=r.random() < 0.7, tie_to=r.choice(mods)[0])
                self.mark("tied_layers")
            else:
                m = b.mod("Linear", din, dout, bias=r.random() < 0.7)
                self.lin_mods.append((m, din, dout))
            out = b.op("nn_linear", [cur], oshape, mod=m)
        elif st == "uu":
            m = b.mod("uu.Linear", din, dout, bias=r.random() < 0.5,
                      constraint=r.choice(["to_output_scale", None, "gmean"]))
            out = b.op("uu_linear", [cur], oshape, mod=m)
        elif st == "u_pos":
            w = b.param([dout, din], 1.0)
            bb = b.param([dout], 0.1) if r.random() < 0.5 else None
            out = b.op("u_linear", [cur], oshape, w=w, b=bb,
                       constraint=r.choice(["to_output_scale", None, "to_grad_input_scale"]), ckw=r.random() < 0.5)
        else:
            cands = [c for c in self.lin_params if c[2] == din and c[3] == dout and (c[1] is not None or st == "nobias2" or True)]
            if cands and r.random() < 0.3:
                w, bb = r.choice(cands)[:2]  # weight tying: the same parameters used again
                if st == "nobias2":
                    bb = None
                self.mark("tied_weights")
                wexpr = None
            elif self.vocab == "quant" and self.ok("wexpr") and r.random() < 0.2:
                # the weight operand is an expression of a parameter (transposed / scaled /
                # sliced), not the parameter itself: what gets quantised is the operand
                wexpr = r.choice(["t", "scaled", "slice"])
                w = b.param({"t": [din, dout], "scaled": [dout, din], "slice": [dout + 2, din]}[wexpr], din ** -0.5)
                has_b = st != "nobias2" and r.random() < 0.7
                bb = b.param([dout], 0.1) if has_b else None
                self.mark("wexpr")
            else:
                wexpr = None
                w = b.param([dout, din], din ** -0.5)
                has_b = st != "nobias2" and r.random() < 0.7
                bb = b.param([dout], 0.1) if has_b else None
                self.lin_params.append((w, bb, din, dout))
            if wexpr:
                out = b.op("linear", [cur], oshape, w=w, b=bb, style=st, wexpr=wexpr)
            else:
                out = b.op("linear", [cur], oshape, w=w, b=bb, style=st)
        self.fresh.add(out)
        return out

    def unary(self, cur: str) -> str:
        r, b = self.r, self.b
        kinds = ["gelu", "gelu_tanh", "silu", "tanh", "relu", "softmax", "dropout0", "dropout_eval",
                 "mul_scalar", "add_scalar", "nn_gelu"]
        if self.vocab != "quant":
            kinds += ["self_add", "self_mul"]
        if self.ok("nn_silu"):
            kinds.append("nn_silu")
        if self.ok("nn_softmax"):
            kinds.append("nn_softmax")
        k = r.choice(kinds)
        if k == "gelu":
            return b.op("gelu", [cur])
        if k == "gelu_tanh":
            return b.op("gelu", [cur], approximate="tanh")
        if k == "silu":
            return b.op("silu", [cur])
        if k == "tanh":
            return b.op("tanh", [cur])
        if k == "relu":
            return b.op("relu", [cur])
        if k == "softmax":
            if self.in_branch:
                self.has_attention_in_branch = True
            return b.op("softmax", [cur], dim=r.choice([-1, len(self.shape(cur)) - 1]))
        if k == "dropout0":
            return b.op("dropout", [cur], p=0.0, training=True)
        if k == "dropout_eval":
            return b.op("dropout", [cur], p=0.3, training=False)
        if k == "mul_scalar":
            return b.op("mul_scalar", [cur], c=r.choice([0.5, 2.0, -1.5]))
        if k == "self_add":
            out = b.op("add", [cur, cur])  # the same tensor as both operands
            self.fresh.add(out)
            return out
        if k == "self_mul":
            return b.op("mul", [cur, cur])
        if k == "add_scalar":
            return b.op("add_scalar", [cur], c=r.choice([1.5, -0.25, 2]))
        if k == "nn_gelu":
            return b.op("nn_gelu", [cur], mod=b.mod("GELU", approximate=r.choice(["none", "tanh"])))
        if k == "nn_silu":
            return b.op("nn_silu", [cur], mod=b.mod("SiLU"))
        if k == "nn_softmax":
            self.mark("nn_softmax")
            if self.in_branch:
                self.has_attention_in_branch = True
            return b.op("nn_softmax", [cur], mod=b.mod("Softmax", dim=-1))
        raise ValueError(k)

    def norm(self, cur: str) -> str:
        r, b = self.r, self.b
        d = self.D(cur)
        k = r.choice(["fn", "fn_affine", "nn"])
        if k == "nn":
            return b.op("nn_layer_norm", [cur], mod=b.mod("LayerNorm", d, elementwise_affine=r.random() < 0.7))
        if k == "fn_affine":
            return b.op("layer_norm", [cur], nshape=[d], w=b.param([d], 0.2, 1.0), b=b.param([d], 0.1))
        return b.op("layer_norm", [cur], nshape=[d])

    def matmul(self, cur: str) -> str:
        r, b = self.r, self.b
        din, dout = self.D(cur), r.choice([4, 6, 8])
        out = b.op("matmul", [cur], self.shape(cur)[:-1] + [dout], w=b.param([din, dout], din ** -0.5))
        self.fresh.add(out)
        return out

    def attention(self, cur: str) -> str:
        r, b = self.r, self.b
        sh = self.shape(cur)
        if len(sh) < 3:
            return self.linear(cur)
        if self.in_branch:
            self.has_attention_in_branch = True
        if r.random() < 0.6 or not self.ok("shared_qkv"):
            q, k, v = (self.linear(cur, self.D(cur)) for _ in range(3))
        else:
            q = k = v = cur
            self.mark("shared_qkv")
        T = sh[-2]
        styles = ["plain", "causal", "mask_kw", "mask_kw_p0"]
        if self.vocab == "quant" and self.ok("sdpa_scale"):
            # the softmax scale given by keyword (no unit-scaled counterpart takes it, so
            # callers that unit_scale() the program first list "sdpa_scale" in avoid)
            styles += ["scale_kw", "mask_pos_scale"]
        if self.ok("sdpa_mask_pos"):
            styles.append("mask_pos")
        if self.o.get("force") == "sdpa_mask_pos" and "sdpa_mask_pos" not in self.used_shapes:
            styles = ["mask_pos"]
        st = r.choice(styles)
        use_u = self.vocab == "quant" and self.ok("u_forms") and r.random() < 0.3 and st in ("plain", "causal")
        attrs: Dict[str, Any] = {"style": st}
        if st.startswith("mask"):
            attrs["mask"] = b.buf([T, T], r.choice(["boolmask", "floatmask"]))
        if st == "mask_pos":
            self.mark("sdpa_mask_pos")
        return b.op("u_sdpa" if use_u else "sdpa", [q, k, v], self.shape(v), **attrs)

    def reshape_pair(self, cur: str) -> str:
        r, b = self.r, self.b
        sh = self.shape(cur)
        k = r.choice(["flat", "transpose", "slice", "reshape"])
        if k == "flat" and len(sh) >= 3:
            f = b.op("flatten01", [cur], [sh[0] * sh[1]] + sh[2:])
            return b.op("reshape", [f], sh, tshape=sh)
        if k == "transpose" and len(sh) >= 3:
            new = list(sh)
            new[-3], new[-2] = sh[-2], sh[-3]
            t = b.op("transpose", [cur], new, d0=-3, d1=-2)
            return b.op("transpose", [t], sh, d0=-3, d1=-2)
        if k == "slice" and sh[-1] >= 4 and not self.in_branch:
            hi = sh[-1] - r.choice([0, 1, 2])
            return b.op("slice_last", [cur], sh[:-1] + [hi], lo=0, hi=hi)
        return b.op("reshape", [cur], sh, tshape=sh)

    def conv(self, cur: str) -> str:
        r, b = self.r, self.b
        sh = self.shape(cur)
        if len(sh) != 3 or not self.ok("conv1d"):
            return self.unary(cur)
        cin, cout, ksz = sh[1], sh[1] if self.in_branch else r.choice([2, 3, sh[1]]), r.choice([1, 3])
        w = b.param([cout, cin, ksz], (cin * ksz) ** -0.5)
        bb = b.param([cout], 0.1) if r.random() < 0.5 else None
        return b.op("conv1d", [cur], [sh[0], cout, sh[2]], w=w, b=bb, padding=ksz // 2)

    def helper(self, cur: str) -> str:
        r, b = self.r, self.b
        if not self.ok("helper_replace"):
            return self.unary(cur)
        fn = r.choice(["my_act", "my_act2"])
        self.helpers_used.add(fn)
        self.mark("helper_replace")
        return b.op("helper", [cur], fn=fn)

    def side_value(self, like: str) -> str:
        """A tensor of the same shape that is not computed from the stream: a fresh input
        pushed through a linear op (so the addition is a plain one)."""
        b = self.b
        x = b.inp(self.shape(like))
        if self.r.random() < 0.5:
            return self.linear(x, self.D(like))
        return x

    def plain_add(self, cur: str) -> str:
        side = self.side_value(cur)
        args = [cur, side] if self.r.random() < 0.5 else [side, cur]
        out = self.b.op("add", args, self.shape(cur))
        self.fresh.add(out)
        return out

    def fanout(self, cur: str) -> str:
        """One tensor used by several consumers (its gradient is the sum over them)."""
        r, b = self.r, self.b
        y = self.unary(cur)
        z = self.unary(cur) if r.random() < 0.5 else self.linear(cur, self.D(cur))
        kind = r.choice(["add", "mul", "three"])
        if kind == "mul":
            return b.op("mul", [y, z], self.shape(cur))
        out = b.op("add", [y, z], self.shape(cur))
        if kind == "three":
            out = b.op("mul", [out, cur], self.shape(cur))
        return out

    def glu(self, cur: str) -> str:
        """An operation that returns a tuple (chunk) followed by getitem nodes: a gated unit."""
        r, b = self.r, self.b
        d = self.D(cur)
        if d % 2:
            return self.unary(cur)
        half = self.shape(cur)[:-1] + [d // 2]
        ch = b.op("chunk2", [cur], half, kind="tuple")
        x1 = b.op("getitem", [ch], half, i=0)
        x2 = b.op("getitem", [ch], half, i=1)
        gate = b.op(r.choice(["silu", "gelu", "tanh"]), [x2], half)
        return b.op("mul", [x1, gate], half)

    def towers(self, cur: str) -> str:
        """Two residual blocks on parallel branches (neither is an ancestor of the other),
        joined by a product or a plain sum."""
        r, b = self.r, self.b
        ta = self.linear(cur, self.D(cur)) if r.random() < 0.5 else self.unary(cur)
        tb = self.linear(cur, self.D(cur))
        ra = self.residual(ta)
        rb = self.residual(tb)
        if r.random() < 0.5:
            return b.op("mul", [ra, rb], self.shape(cur))
        out = b.op("add", [ra, rb], self.shape(cur))
        self.fresh.add(out)
        return out

    def intmask(self, cur: str) -> str:
        """Integer / bool intermediates: a mask and a where() (non-float nodes must never be
        instrumented), and sometimes an argmax kept as an extra integer output."""
        r, b = self.r, self.b
        m = b.op("gt_mask", [cur], self.shape(cur), kind="bool", c=r.choice([0.0, 0.5, -0.5]))
        other = b.op("mul_scalar", [cur], c=r.choice([0.0, 0.1]))
        out = b.op("where", [m, cur, other], self.shape(cur))
        if r.random() < 0.4:
            self.extra_outputs.append(b.op("argmax_ids", [cur], self.shape(cur)[:-1], kind="ids"))
        return out

    def residual(self, cur: str, depth: int = 0) -> str:
        r, b = self.r, self.b
        self.nres += 1
        outer_att = self.has_attention_in_branch
        self.has_attention_in_branch = False
        self.in_branch += 1
        d = self.D(cur)
        h = cur
        n = r.choice([1, 2, 3])
        if r.random() < 0.5:
            h = self.norm(h)
        kinds = r.choice([["mlp"], ["attn"], ["act"], ["mlp", "inner"], ["conv"]])
        for kd in kinds:
            if kd == "mlp":
                h = self.linear(h, r.choice([4, 8]))
                h = self.unary(h)
                h = self.linear(h, d)
            elif kd == "attn":
                h = self.attention(h)
                if r.random() < 0.5:
                    # tensor *method* calls (reshape / transpose / flatten) between the attention
                    # and the residual addition, as in a multi-head merge
                    h = self.reshape_pair(h)
                if self.D(h) != d:
                    h = self.linear(h, d)
            elif kd == "act" and r.random() < 0.3:
                h = self.unary(h)
                h = self.reshape_pair(h)
            elif kd == "act":
                for _ in range(n):
                    h = self.unary(h)
            elif kd == "conv":
                h = self.conv(h)
            elif kd == "inner" and depth < 1 and self.nres < 4:
                h = self.residual(h, depth + 1)
        if self.shape(h) != self.shape(cur):
            h = self.linear(h, d)
        style = r.choice(["skip_first", "branch_first", "iadd"])
        if style == "iadd" and (h not in self.fresh or h == cur):
            style = "branch_first"
        if style == "skip_first":
            out = b.op("add", [cur, h], self.shape(cur))
        elif style == "branch_first":
            out = b.op("add", [h, cur], self.shape(cur))
        else:
            out = b.op("iadd", [h, cur], self.shape(cur))
        self.fresh.add(out)
        self.in_branch -= 1
        self.has_attention_in_branch = outer_att or self.has_attention_in_branch
        return out

    # ---------------- whole program
    def program(self) -> Dict[str, Any]:
        r, b, o = self.r, self.b, self.o
        lo, hi = o.get("depth", (1, 12))
        nsteps = r.randrange(lo, hi + 1)
        rank = r.choice([2, 3, 3, 4]) if self.vocab == "quant" else r.choice([2, 3, 3])
        batch = {2: [r.choice([2, 3])], 3: [r.choice([2, 3]), r.choice([3, 4])],
                 4: [2, 2, r.choice([3, 4])]}[rank]
        d0 = r.choice([4, 6, 8])
        start = r.choice(["float", "float", "float", "embed", "embed_sum"]) if rank == 3 else "float"
        if start == "float":
            cur = b.inp(batch + [d0], zeros=r.random() < 0.2)
        else:
            vocab = r.choice([7, 11])
            ids = b.inp(batch, kind="ids", vocab=vocab)
            if r.random() < 0.5:
                cur = b.op("nn_embedding", [ids], batch + [d0],
                           mod=b.mod("Embedding", vocab, d0, padding_idx=r.choice([None, None, 0])))
            else:
                cur = b.op("embedding", [ids], batch + [d0], w=b.param([vocab, d0], 1.0))
            if start == "embed_sum" and self.ok("skip_plain_sum"):
                pos = b.inp(batch, kind="ids", vocab=batch[-1])
                pe = b.op("nn_embedding", [pos], batch + [d0], mod=b.mod("Embedding", batch[-1], d0))
                cur = b.op("add", [cur, pe], batch + [d0])
                self.mark("skip_plain_sum")
                self.pending_plain_sum_skip = True
        max_res = o.get("max_residual", 4)
        want_res = r.choice([0, 1, 1, 2, 3, 4]) if self.vocab != "quant" else r.choice([0, 0, 1])
        want_res = min(want_res, max_res)
        steps: List[str] = []
        for _ in range(nsteps):
            kinds = ["linear", "linear", "unary", "unary", "norm", "matmul", "attention",
                     "reshape", "plain_add", "conv", "helper"]
            if self.vocab == "track":
                kinds += ["fanout", "fanout", "intmask"]
            if self.vocab in ("unitscale", "track"):
                kinds += ["towers", "glu"]
            steps.append(r.choice(kinds))
        for _ in range(want_res):
            steps.insert(r.randrange(len(steps) + 1), "residual")
        if getattr(self, "pending_plain_sum_skip", False):
            steps.insert(0, "residual")  # the skip tensor is the plain sum itself
        last_res = max([i for i, s in enumerate(steps) if s == "residual"], default=-1)
        for i, s in enumerate(steps):
            if s == "plain_add":
                tail = i > last_res
                if tail and not self.ok("plain_add_tail"):
                    s = "unary"
                elif tail:
                    self.mark("plain_add_tail")
            if s == "helper" and self.vocab == "quant":
                s = "unary"
            if s == "linear":
                cur = self.linear(cur)
            elif s == "unary":
                cur = self.unary(cur)
            elif s == "norm":
                cur = self.norm(cur)
            elif s == "matmul":
                cur = self.matmul(cur)
            elif s == "attention":
                cur = self.attention(cur)
            elif s == "reshape":
                cur = self.reshape_pair(cur)
            elif s == "plain_add":
                cur = self.plain_add(cur)
            elif s == "conv":
                cur = self.conv(cur)
            elif s == "helper":
                cur = self.helper(cur)
            elif s == "residual":
                cur = self.residual(cur)
            elif s == "towers":
                cur = self.towers(cur) if self.nres < 4 else self.unary(cur)
            elif s == "glu":
                cur = self.glu(cur)
            elif s == "fanout":
                cur = self.fanout(cur)
            elif s == "intmask":
                cur = self.intmask(cur)
            if self.vocab == "track" and r.random() < 0.15 and len(self.extra_outputs) < 2:
                self.extra_outputs.append(cur)  # an intermediate is also returned
        outs = [cur]
        end = r.choice(["none", "none", "head", "ce", "mse"]) if self.vocab != "quant" else r.choice(["none", "head"])
        if end == "head":
            outs = [self.linear(cur, r.choice([3, 5]))]
        elif end == "ce":
            logits = self.linear(cur, 5)
            sh = self.shape(logits)
            n = 1
            for s_ in sh[:-1]:
                n *= s_
            flat = b.op("reshape", [logits], [n, 5], tshape=[n, 5])
            tgt = b.inp([n], kind="ids", vocab=5)
            outs = [b.op("cross_entropy", [flat, tgt], [])]
        elif end == "mse":
            tgt = b.inp(self.shape(cur))
            outs = [b.op("mse_loss", [cur, tgt], [])]
        outs = outs + [o for o in self.extra_outputs if o not in outs]
        spec = b.out(*outs)
        spec["shapes_used"] = sorted(self.used_shapes)
        spec["helpers_used"] = sorted(self.helpers_used)
        return spec


def generate(r: Any, opts: Dict[str, Any]) -> Dict[str, Any]:
    return Gen(r, opts).program()
