"""A tiny IR for module graphs, a plain-torch module that interprets it (TorchDynamo unrolls
the loop into a flat FX graph), and *reference interpreters* of the same IR:

    mode us=False, q=None : the plain computation
    mode us=True          : the module rewritten by hand following the User-Guide recipe
    mode q=(fwd, bwd)     : quantisation inserted by hand at linear / attention boundaries

The references use the library's U.* functions and FPFormat.quantise as building blocks
(their scale factors / value sets are other properties' business) but their own residual
analysis, constraint analysis and straight-through wrappers.

Spec (JSON-able):
  {"seed": int,
   "inputs":  [{"name", "shape", "kind": "float"|"ids", "vocab": int}],
   "params":  [{"name", "shape", "std": float}],
   "mods":    [{"name", "type", "args": [...], "kwargs": {...}}],
   "prog":    [{"out", "op", "args": [value names], ...attrs}],
   "outputs": [value names]}
"""

from __future__ import annotations

from typing import Any, Callable, Dict, List, Optional, Sequence, Set, Tuple

import torch
import torch.nn.functional as F
from torch import nn

# ------------------------------------------------------------------------------------
# user helper functions (targets of unit_scale(replace=...)); plain python, module level


def my_act(x: torch.Tensor) -> torch.Tensor:
    return F.gelu(x, approximate="tanh")


def my_act2(x: torch.Tensor) -> torch.Tensor:
    return F.silu(x) * 1.5


def my_proj(x: torch.Tensor, w: torch.Tensor) -> torch.Tensor:
    return torch.tanh(x @ w.t())


HELPERS: Dict[str, Callable[..., Any]] = {"my_act": my_act, "my_act2": my_act2, "my_proj": my_proj}

MAPPED_WITH_CONSTRAINT = {"linear", "nn_linear", "u_linear", "uu_linear", "gelu", "nn_gelu", "u_gelu",
                          "silu", "softmax", "nn_softmax", "matmul", "conv1d", "u_silu"}


# ------------------------------------------------------------------------------------
# the plain module


def _mk_mod(m: Dict[str, Any]) -> nn.Module:
    import unit_scaling as uu

    t = m["type"]
    a, k = m.get("args", []), m.get("kwargs", {})
    if t.startswith("uu."):
        return getattr(uu, t[3:])(*a, **k)
    return getattr(nn, t)(*a, **k)


class ProgModule(nn.Module):
    def __init__(self, spec: Dict[str, Any]) -> None:
        super().__init__()
        g = torch.Generator().manual_seed(spec["seed"])
        for p in spec["params"]:
            data = torch.randn(*p["shape"], generator=g) * p.get("std", 1.0) + p.get("mean", 0.0)
            setattr(self, p["name"], nn.Parameter(data))
        for bspec in spec.get("bufs", []):
            shape = bspec["shape"]
            if bspec["kind"] == "boolmask":
                t = torch.rand(*shape, generator=g) > 0.3
                t = t | torch.eye(shape[-1], dtype=torch.bool).expand(*shape)
            elif bspec["kind"] == "floatmask":
                t = torch.randn(*shape, generator=g)
            else:
                t = torch.randn(*shape, generator=g)
            self.register_buffer(bspec["name"], t)
        torch.manual_seed(spec["seed"] + 1)
        for m in spec["mods"]:
            setattr(self, m["name"], _mk_mod(m))
        for m in spec["mods"]:
            if m.get("tie_to"):  # weight tying between two layers (one Parameter, two modules)
                getattr(self, m["name"]).weight = getattr(self, m["tie_to"]).weight
        self.prog = spec["prog"]
        self.input_names = [i["name"] for i in spec["inputs"]]
        self.output_names = list(spec["outputs"])

    def forward(self, *inputs: Any) -> Any:
        env: Dict[str, Any] = {}
        for i, n in enumerate(self.input_names):
            env[n] = inputs[i]
        for st in self.prog:
            env[st["out"]] = _plain_op(self, st, [env[a] for a in st["args"]])
        if len(self.output_names) == 1:
            return env[self.output_names[0]]
        return tuple(env[n] for n in self.output_names)


def _wexpr(w: torch.Tensor, st: Dict[str, Any]) -> torch.Tensor:
    e = st.get("wexpr")
    if e == "t":
        return w.t()
    if e == "scaled":
        return w * 2.0
    if e == "slice":
        return w[:-2]
    return w


def _plain_op(mod: nn.Module, st: Dict[str, Any], a: List[Any]) -> Any:
    """Plain torch semantics of one IR statement, written the way a user would."""
    import unit_scaling.functional as U

    op = st["op"]
    if op == "linear":
        w = _wexpr(getattr(mod, st["w"]), st)
        b = getattr(mod, st["b"]) if st.get("b") else None
        style = st.get("style", "pos")
        if style == "pos":
            return F.linear(a[0], w, b)
        if style == "nobias2":
            return F.linear(a[0], w)
        if style == "bias_kw":
            return F.linear(a[0], w, bias=b)
        if style == "weight_kw":
            return F.linear(a[0], weight=w, bias=b)
        raise ValueError(style)
    if op in ("nn_linear", "uu_linear", "nn_gelu", "nn_softmax", "nn_layer_norm", "nn_embedding",
              "nn_silu", "uu_layer_norm", "uu_embedding", "uu_gelu", "nn_dropout"):
        return getattr(mod, st["mod"])(a[0])
    if op == "u_linear":
        w = getattr(mod, st["w"])
        b = getattr(mod, st["b"]) if st.get("b") else None
        if st.get("ckw"):
            return U.linear(a[0], w, b, constraint=st.get("constraint", "to_output_scale"))
        return U.linear(a[0], w, b, st.get("constraint", "to_output_scale"))
    if op == "gelu":
        return F.gelu(a[0], approximate=st.get("approximate", "none"))
    if op == "u_gelu":
        return U.gelu(a[0])
    if op == "silu":
        return F.silu(a[0])
    if op == "u_silu":
        return U.silu(a[0])
    if op == "softmax":
        return F.softmax(a[0], dim=st.get("dim", -1))
    if op == "dropout":
        return F.dropout(a[0], p=st.get("p", 0.0), training=st.get("training", True))
    if op == "layer_norm":
        w = getattr(mod, st["w"]) if st.get("w") else None
        b = getattr(mod, st["b"]) if st.get("b") else None
        return F.layer_norm(a[0], tuple(st["nshape"]), w, b, st.get("eps", 1e-5))
    if op == "matmul":
        rhs = getattr(mod, st["w"]) if st.get("w") else a[1]
        return torch.matmul(a[0], rhs)
    if op == "embedding":
        return F.embedding(a[0], getattr(mod, st["w"]))
    if op == "conv1d":
        w = getattr(mod, st["w"])
        b = getattr(mod, st["b"]) if st.get("b") else None
        return F.conv1d(a[0], w, b, st.get("stride", 1), st.get("padding", 0))
    if op == "sdpa":
        style = st.get("style", "plain")
        mask = getattr(mod, st["mask"]) if st.get("mask") else None
        if style == "plain":
            return F.scaled_dot_product_attention(a[0], a[1], a[2])
        if style == "causal":
            return F.scaled_dot_product_attention(a[0], a[1], a[2], is_causal=True)
        if style == "scale_kw":
            return F.scaled_dot_product_attention(a[0], a[1], a[2], scale=0.3)
        if style == "mask_kw":
            return F.scaled_dot_product_attention(a[0], a[1], a[2], attn_mask=mask)
        if style == "mask_kw_p0":
            return F.scaled_dot_product_attention(a[0], a[1], a[2], attn_mask=mask, dropout_p=0.0)
        if style == "mask_pos":
            return F.scaled_dot_product_attention(a[0], a[1], a[2], mask, 0.0, False)
        if style == "mask_pos_scale":
            return F.scaled_dot_product_attention(a[0], a[1], a[2], mask, 0.0, False, scale=0.3)
        raise ValueError(style)
    if op == "u_sdpa":
        if st.get("style") == "causal":
            return U.scaled_dot_product_attention(a[0], a[1], a[2], is_causal=True)
        return U.scaled_dot_product_attention(a[0], a[1], a[2])
    if op == "cross_entropy":
        return F.cross_entropy(a[0], a[1])
    if op == "mse_loss":
        return F.mse_loss(a[0], a[1])
    if op == "tanh":
        return torch.tanh(a[0])
    if op == "relu":
        return F.relu(a[0])
    if op == "mul":
        return a[0] * a[1]
    if op == "mul_scalar":
        return a[0] * st["c"]
    if op == "reshape":
        return a[0].reshape(st["tshape"])
    if op == "flatten01":
        return a[0].flatten(0, 1)
    if op == "transpose":
        return a[0].transpose(st["d0"], st["d1"])
    if op == "slice_last":
        return a[0][..., st["lo"]:st["hi"]]
    if op == "slice_seq":
        return a[0][:, st["lo"]:st["hi"]]
    if op == "add":
        return a[0] + a[1]
    if op == "add_scalar":
        return a[0] + st["c"]
    if op == "add_fn":
        return torch.add(a[0], a[1])
    if op == "add_method":
        return a[0].add(a[1])
    if op == "iadd":
        # in place on the first operand: the generator only uses it on a fresh
        # intermediate (output of a linear / matmul / add) that has no other user
        t = a[0]
        t += a[1]
        return t
    if op == "helper":
        fn = HELPERS[st["fn"]]
        if st.get("w"):
            return fn(a[0], getattr(mod, st["w"]))
        return fn(a[0])
    if op == "u_residual_split":
        return U.residual_split(a[0], st["tau"])
    if op == "getitem":
        return a[0][st["i"]]
    if op == "chunk2":
        return a[0].chunk(2, -1)
    if op == "u_residual_add":
        return U.residual_add(a[0], a[1], st["tau"])
    if op == "argmax_ids":
        return a[0].argmax(-1)
    if op == "gt_mask":
        return a[0] > st["c"]
    if op == "where":
        return torch.where(a[0], a[1], a[2])
    if op == "sum_last":
        return a[0].sum(-1)
    if op == "mean_all":
        return a[0].mean()
    raise ValueError(op)


# ------------------------------------------------------------------------------------
# straight-through quantisers of the reference (independent of formats.quantise_fwd/bwd)


class _RefQFwd(torch.autograd.Function):
    @staticmethod
    def forward(ctx: Any, x: torch.Tensor, fmt: Any) -> torch.Tensor:  # type: ignore[override]
        return fmt.quantise(x)

    @staticmethod
    def backward(ctx: Any, g: torch.Tensor) -> Any:  # type: ignore[override]
        return g, None


class _RefQBwd(torch.autograd.Function):
    @staticmethod
    def forward(ctx: Any, x: torch.Tensor, fmt: Any) -> torch.Tensor:  # type: ignore[override]
        ctx.fmt = fmt
        return x.view_as(x)

    @staticmethod
    def backward(ctx: Any, g: torch.Tensor) -> Any:  # type: ignore[override]
        return ctx.fmt.quantise(g), None


def mk_format(t: Sequence[Any]) -> Any:
    from unit_scaling.formats import FPFormat

    E, M, rounding, srbits = t
    return FPFormat(E, M, rounding, srbits)


# ------------------------------------------------------------------------------------
# analysis on the IR (independent of the library's graph analysis)


def _ancestors(spec: Dict[str, Any]) -> Dict[str, Set[str]]:
    anc: Dict[str, Set[str]] = {i["name"]: set() for i in spec["inputs"]}
    for st in spec["prog"]:
        s: Set[str] = set()
        for a in st["args"]:
            s.add(a)
            s |= anc[a]
        anc[st["out"]] = s
    return anc


ATTENTION_OPS = {"softmax", "nn_softmax", "sdpa", "u_sdpa", "u_softmax"}
ADD_OPS = {"add", "iadd", "add_fn", "add_method"}


def recipe_analysis(spec: Dict[str, Any]) -> Dict[str, Any]:
    """Residual adds (skip, residual, tau), values to split, and the set of statements
    from which a residual addition is reachable (those keep their default constraint)."""
    anc = _ancestors(spec)
    producer = {st["out"]: st for st in spec["prog"]}
    residual_adds: Dict[int, Dict[str, Any]] = {}
    split_of: Dict[str, Dict[str, Any]] = {}
    for idx, st in enumerate(spec["prog"]):
        if st["op"] in ADD_OPS and len(st["args"]) == 2:
            a, b = st["args"]
            skip = res = None
            if a in anc[b]:
                skip, res = a, b
            elif b in anc[a]:
                skip, res = b, a
            if skip is None:
                continue
            # ops on the branch: ancestors of the residual operand that depend on the skip
            branch = [producer[v] for v in (anc[res] | {res})
                      if v in producer and (skip in anc[v])]
            is_sa = any(s["op"] in ATTENTION_OPS for s in branch)
            # the library also looks at ancestors of the branch that bypass the skip; the
            # generator never puts softmax/attention there (checked by `ambiguous`)
            outside = [producer[v] for v in anc[res] if v in producer and skip not in anc[v] and v != skip
                       and v not in anc[skip]]
            amb = (not is_sa) and any(s["op"] in ATTENTION_OPS for s in outside)
            tau = 0.01 if is_sa else 0.5
            residual_adds[idx] = {"skip": skip, "res": res, "tau": tau, "ambiguous_tau": amb}
            split_of.setdefault(skip, {"tau": tau, "add_idx": idx})
    has_succ: Set[str] = set()
    for idx, info in residual_adds.items():
        out = spec["prog"][idx]["out"]
        has_succ.add(out)
        has_succ |= anc[out]
    return {"residual_adds": residual_adds, "split_of": split_of, "has_residual_successor": has_succ}


# ------------------------------------------------------------------------------------
# the reference interpreter


class _Jitter(torch.autograd.Function):
    """Identity up to one float32 ulp: value and gradient are multiplied elementwise by
    (1 + eps * u), u uniform in [-1, 1] from a seeded generator.  Used to measure how much a
    program amplifies rounding-level perturbations of its intermediates (the band inside
    which two executions can differ 'only by float rounding')."""

    @staticmethod
    def forward(ctx: Any, x: torch.Tensor, eps: float, seed: int) -> torch.Tensor:  # type: ignore[override]
        ctx.eps, ctx.seed = eps, seed
        g = torch.Generator().manual_seed(seed)
        u = torch.rand(x.shape, generator=g, dtype=torch.float64) * 2 - 1
        return (x.double() * (1 + eps * u)).to(x.dtype)

    @staticmethod
    def backward(ctx: Any, gr: torch.Tensor) -> Any:  # type: ignore[override]
        g = torch.Generator().manual_seed(ctx.seed + 7919)
        u = torch.rand(gr.shape, generator=g, dtype=torch.float64) * 2 - 1
        return (gr.double() * (1 + ctx.eps * u)).to(gr.dtype), None, None


class Reference:
    """Executes `spec` eagerly with parameters / submodules taken from `holder` (usually
    the transformed module, so both sides compute with the same numbers)."""

    def __init__(self, spec: Dict[str, Any], us: bool = False,
                 q: Optional[Tuple[Sequence[Any], Sequence[Any]]] = None,
                 replace: Optional[Dict[str, str]] = None,
                 jitter: Optional[Tuple[float, int]] = None) -> None:
        self.spec = spec
        self.us = us
        self.jitter = jitter
        self.q = (mk_format(q[0]), mk_format(q[1])) if q else None
        self.replace = replace or {}
        self.analysis = recipe_analysis(spec) if us else None

    # -- helpers
    def _qf(self, x: torch.Tensor) -> torch.Tensor:
        return _RefQFwd.apply(x, self.q[0]) if self.q else x  # type: ignore[index]

    def _qb(self, y: torch.Tensor) -> torch.Tensor:
        return _RefQBwd.apply(y, self.q[1]) if self.q else y  # type: ignore[index]

    def run(self, holder: nn.Module, inputs: Sequence[Any]) -> Tuple[Any, ...]:
        import unit_scaling.functional as U

        spec = self.spec
        env: Dict[str, Any] = {}
        res_start: Dict[str, Any] = {}
        skip_val: Dict[str, Any] = {}
        an = self.analysis

        def define(name: str, val: Any) -> None:
            env[name] = val
            if an and name in an["split_of"]:
                r, k = U.residual_split(val, an["split_of"][name]["tau"])
                res_start[name] = r
                skip_val[name] = k

        def read(name: str) -> Any:
            return res_start.get(name, env[name])

        for i, inp in enumerate(spec["inputs"]):
            define(inp["name"], inputs[i])
        for idx, st in enumerate(spec["prog"]):
            if an and idx in an["residual_adds"]:
                info = an["residual_adds"][idx]
                val = U.residual_add(read(info["res"]), skip_val[info["skip"]], info["tau"])
            else:
                args = [read(a) for a in st["args"]]
                constrained = (not an) or (st["out"] in an["has_residual_successor"])
                val = self._op(holder, st, args, constrained)
            if self.jitter and isinstance(val, torch.Tensor) and val.is_floating_point() and val.numel():
                val = _Jitter.apply(val, self.jitter[0], self.jitter[1] * 1000 + idx)
            define(st["out"], val)
        return tuple(env[n] for n in spec["outputs"])

    def _op(self, mod: nn.Module, st: Dict[str, Any], a: List[Any], constrained: bool) -> Any:
        import unit_scaling.functional as U

        op = st["op"]
        us = self.us
        # keyword used for ops with a `constraint` parameter under the recipe
        ckw: Dict[str, Any] = {} if constrained else {"constraint": None}

        def sub(name: str) -> nn.Module:
            return getattr(mod, name)

        if op in ("linear", "nn_linear"):
            if op == "linear":
                w = _wexpr(getattr(mod, st["w"]), st)
                b = getattr(mod, st["b"]) if st.get("b") else None
            else:
                w, b = sub(st["mod"]).weight, sub(st["mod"]).bias
            x, w = self._qf(a[0]), self._qf(w)
            y = U.linear(x, w, b, **ckw) if us else F.linear(x, w, b)
            return self._qb(y)
        if op in ("u_linear", "uu_linear"):
            if op == "u_linear":
                w = getattr(mod, st["w"])
                b = getattr(mod, st["b"]) if st.get("b") else None
                c = st.get("constraint", "to_output_scale")
            else:
                m = sub(st["mod"])
                w, b, c = m.weight, m.bias, m.constraint
            if us and not constrained:
                c = None
            x, w = self._qf(a[0]), self._qf(w)
            return self._qb(U.linear(x, w, b, c))
        if op in ("gelu", "nn_gelu"):
            approx = st.get("approximate", "none") if op == "gelu" else sub(st["mod"]).approximate
            return U.gelu(a[0], approximate=approx, **ckw) if us else F.gelu(a[0], approximate=approx)
        if op in ("u_gelu", "uu_gelu"):
            return U.gelu(a[0], **(ckw if us else {}))
        if op in ("silu", "nn_silu"):
            if us and "F.silu" in self.replace:  # a user replacement of a mapped torch function wins
                return getattr(U, self.replace["F.silu"])(a[0], **ckw)
            return U.silu(a[0], **ckw) if us else F.silu(a[0])
        if op == "u_silu":
            return U.silu(a[0], **(ckw if us else {}))
        if op in ("softmax", "nn_softmax"):
            dim = st.get("dim", -1) if op == "softmax" else sub(st["mod"]).dim
            return U.softmax(a[0], dim=dim, **ckw) if us else F.softmax(a[0], dim=dim)
        if op in ("dropout", "nn_dropout"):
            if op == "dropout":
                p, tr = st.get("p", 0.0), st.get("training", True)
            else:
                p, tr = sub(st["mod"]).p, sub(st["mod"]).training
            return U.dropout(a[0], p, tr) if us else F.dropout(a[0], p, tr)
        if op in ("layer_norm", "nn_layer_norm", "uu_layer_norm"):
            if op == "layer_norm":
                w = getattr(mod, st["w"]) if st.get("w") else None
                b = getattr(mod, st["b"]) if st.get("b") else None
                shape, eps = tuple(st["nshape"]), st.get("eps", 1e-5)
            else:
                m = sub(st["mod"])
                w, b, shape, eps = m.weight, m.bias, m.normalized_shape, m.eps
            if us or op == "uu_layer_norm":
                return U.layer_norm(a[0], shape, w, b, eps)
            return F.layer_norm(a[0], shape, w, b, eps)
        if op == "matmul":
            rhs = getattr(mod, st["w"]) if st.get("w") else a[1]
            return U.matmul(a[0], rhs, **ckw) if us else torch.matmul(a[0], rhs)
        if op in ("embedding", "nn_embedding", "uu_embedding"):
            w = getattr(mod, st["w"]) if op == "embedding" else sub(st["mod"]).weight
            pad = None if op == "embedding" else sub(st["mod"]).padding_idx
            if us or op == "uu_embedding":
                return U.embedding(a[0], w, pad)
            return F.embedding(a[0], w, pad)
        if op == "conv1d":
            w = getattr(mod, st["w"])
            b = getattr(mod, st["b"]) if st.get("b") else None
            if us:
                return U.conv1d(a[0], w, b, st.get("stride", 1), st.get("padding", 0), **ckw)
            return F.conv1d(a[0], w, b, st.get("stride", 1), st.get("padding", 0))
        if op in ("sdpa", "u_sdpa"):
            style = st.get("style", "plain")
            mask = getattr(mod, st["mask"]) if st.get("mask") else None
            kw: Dict[str, Any] = {}
            if style == "causal":
                kw["is_causal"] = True
            elif style == "scale_kw":
                kw["scale"] = 0.3
            elif style.startswith("mask"):
                kw["attn_mask"] = mask
            if style == "mask_pos_scale":
                kw["scale"] = 0.3
            qq, kk, vv = self._qf(a[0]), self._qf(a[1]), self._qf(a[2])
            if us or op == "u_sdpa":
                return self._qb(U.scaled_dot_product_attention(qq, kk, vv, **kw))
            return self._qb(F.scaled_dot_product_attention(qq, kk, vv, **kw))
        if op == "cross_entropy":
            return U.cross_entropy(a[0], a[1]) if us else F.cross_entropy(a[0], a[1])
        if op == "mse_loss":
            return U.mse_loss(a[0], a[1]) if us else F.mse_loss(a[0], a[1])
        if op in ("add", "add_fn", "add_method"):
            return U.add(a[0], a[1], constraint=None) if us else a[0] + a[1]
        if op == "iadd":
            return U.add(a[0], a[1], constraint=None) if us else a[0] + a[1]
        if op == "add_scalar":
            return a[0] + st["c"]
        if op == "helper":
            if us and st["fn"] in self.replace:
                target = self.replace[st["fn"]]
                fn = getattr(U, target)
                kw2 = dict(ckw) if target in ("gelu", "silu") else {}
                if st.get("w"):
                    return fn(a[0], getattr(mod, st["w"]), **kw2)
                return fn(a[0], **kw2)
            if us and st["fn"] == "my_act":
                # not replaced: the helper is traced through, the recipe applies inside it
                return U.gelu(a[0], approximate="tanh", **ckw)
            if us and st["fn"] == "my_act2":
                inner = getattr(U, self.replace["F.silu"]) if "F.silu" in self.replace else U.silu
                return inner(a[0], **ckw) * 1.5
            fn2 = HELPERS[st["fn"]]
            if st.get("w"):
                return fn2(a[0], getattr(mod, st["w"]))
            return fn2(a[0])
        if op == "u_residual_split":
            return U.residual_split(a[0], st["tau"])
        if op == "u_residual_add":
            return U.residual_add(a[0], a[1], st["tau"])
        # everything else is untouched by every transform
        return _plain_op(mod, st, a)


# ------------------------------------------------------------------------------------
# inputs


def make_inputs(spec: Dict[str, Any], iseed: int, requires_grad: bool = True,
                overrides: Optional[Dict[str, Any]] = None) -> List[torch.Tensor]:
    g = torch.Generator().manual_seed(iseed)
    out = []
    for inp in spec["inputs"]:
        shape = (overrides or {}).get(inp["name"], inp["shape"])
        if inp["kind"] == "ids":
            from simkit.seams import orig_randint

            out.append(orig_randint(0, inp["vocab"], tuple(shape), generator=g))
        else:
            t = torch.randn(*shape, generator=g)
            if inp.get("zeros"):
                t = t * (torch.rand(*shape, generator=g) > 0.3)
            out.append(t.requires_grad_(requires_grad))
    return out
