"""Shrinking of expanded IR specs (models/programs.py): candidates that are strictly smaller
programs - truncate the program at an earlier float value, or bypass one statement whose
output has the shape of its first argument.  Used by the engines' `simplify` so that a
replay file holds a small explicit program instead of generator seeds."""

from __future__ import annotations

import copy
from typing import Any, Dict, Iterable, List


def _prune(spec: Dict[str, Any]) -> Dict[str, Any]:
    """Drop statements whose output is never used, then unused parameters / buffers /
    modules (inputs are positional and stay)."""
    prog = spec["prog"]
    while True:
        used = set(spec["outputs"])
        for st in prog:
            used.update(st["args"])
        keep = [st for st in prog if st["out"] in used]
        if len(keep) == len(prog):
            break
        prog = keep
    spec["prog"] = prog
    names = set()
    for st in prog:
        for k in ("w", "b", "mod", "mask"):
            if st.get(k):
                names.add(st[k])
    tie = {m.get("tie_to") for m in spec.get("mods", []) if m["name"] in names and m.get("tie_to")}
    names |= tie
    spec["params"] = [p for p in spec.get("params", []) if p["name"] in names]
    spec["bufs"] = [p for p in spec.get("bufs", []) if p["name"] in names]
    spec["mods"] = [m for m in spec.get("mods", []) if m["name"] in names]
    return spec


def candidates(spec: Dict[str, Any]) -> Iterable[Dict[str, Any]]:
    vs, vk = spec.get("vshapes", {}), spec.get("vkinds", {})
    prog = spec["prog"]
    n = len(prog)
    seen = set()

    def emit(c: Dict[str, Any]) -> Iterable[Dict[str, Any]]:
        c = _prune(c)
        key = repr((c["prog"], c["outputs"]))
        if key not in seen and len(c["prog"]) < n and c["prog"]:
            seen.add(key)
            yield c

    # 1. truncate: an earlier float value becomes the only output (big cuts first)
    cuts: List[int] = []
    step = max(1, n // 2)
    while step >= 1:
        cuts += [i for i in range(step - 1, n - 1, step) if i not in cuts]
        step //= 2
    for i in cuts:
        out = prog[i]["out"]
        if vk.get(out, "float") != "float":
            continue
        c = copy.deepcopy(spec)
        c["outputs"] = [out]
        yield from emit(c)
    # 2. fewer outputs
    if len(spec["outputs"]) > 1:
        for o in spec["outputs"]:
            c = copy.deepcopy(spec)
            c["outputs"] = [o]
            yield from emit(c)
    # 3. bypass one statement (its users read its first argument instead)
    for i in range(n - 1, -1, -1):
        st = prog[i]
        if not st["args"]:
            continue
        a0, out = st["args"][0], st["out"]
        if vs.get(a0) != vs.get(out) or vk.get(a0, "float") != vk.get(out, "float"):
            continue
        c = copy.deepcopy(spec)
        del c["prog"][i]
        for later in c["prog"][i:]:
            later["args"] = [a0 if a == out else a for a in later["args"]]
        c["outputs"] = [a0 if o == out else o for o in c["outputs"]]
        yield from emit(c)
