"""Exact reference model of an (E, M) floating-point format as the library documents it
(max_absolute_value, min_absolute_normal, min_absolute_subnormal):

    normals     s * 2^e * (1 + k/2^M),  emin <= e <= emax, 0 <= k < 2^M
    subnormals  s * k * 2^(emin - M),   0 <= k < 2^M
    emax = 2^(E-1) - 1, emin = 1 - 2^(E-1), max = 2^emax * (2 - 2^-M)

No bit tricks: neighbours are found arithmetically.  Two implementations that must agree:
`neighbours_fraction` (python Fractions, one value) and `neighbours_np` (numpy float64,
vectorised; exact because every quantity is a dyadic rational with < 53 significant bits).
"""

from __future__ import annotations

from fractions import Fraction
from typing import Tuple

import numpy as np


def emax(E: int) -> int:
    return 2 ** (E - 1) - 1


def emin(E: int) -> int:
    return 1 - 2 ** (E - 1)


def max_value(E: int, M: int) -> Fraction:
    return Fraction(2) ** emax(E) * (2 - Fraction(1, 2**M))


def neighbours_fraction(E: int, M: int, x: Fraction) -> Tuple[Fraction, Fraction, Fraction]:
    """(lo, hi, frac) for the range-clamped magnitude of x: lo <= |clamp(x)| <= hi are
    adjacent representable magnitudes (lo == hi iff representable), frac its position."""
    a = min(abs(x), max_value(E, M))
    if a == 0:
        return Fraction(0), Fraction(0), Fraction(0)
    # exponent of a, clipped to the subnormal binade
    e = a.numerator.bit_length() - a.denominator.bit_length()
    if Fraction(2) ** e > a:
        e -= 1
    if Fraction(2) ** (e + 1) <= a:
        e += 1
    e = max(e, emin(E))
    spacing = Fraction(2) ** (e - M)
    k = a / spacing
    lo = (k.numerator // k.denominator) * spacing
    if lo == a:
        return a, a, Fraction(0)
    return lo, lo + spacing, (a - lo) / spacing


def neighbours_np(E: int, M: int, x32: np.ndarray) -> Tuple[np.ndarray, np.ndarray, np.ndarray, np.ndarray]:
    """Vectorised (lo, hi, frac, spacing) in float64 for float32 inputs."""
    x = x32.astype(np.float64)
    mx = float(max_value(E, M))
    a = np.minimum(np.abs(x), mx)
    _, ex = np.frexp(a)  # a = m * 2^ex, m in [0.5, 1)  ->  floor(log2 a) = ex - 1
    e = np.maximum(ex - 1, emin(E)).astype(np.int64)
    spacing = np.ldexp(1.0, (e - M).astype(np.int32))
    k = np.floor(a / spacing)
    lo = k * spacing
    rep = lo == a
    hi = np.where(rep, lo, lo + spacing)
    frac = np.where(rep, 0.0, (a - lo) / spacing)
    return lo, hi, frac, spacing


def value_set(E: int, M: int) -> np.ndarray:
    """All non-negative representable magnitudes, ascending (float64)."""
    vals = [k * 2.0 ** (emin(E) - M) for k in range(2**M)]
    for e in range(emin(E), emax(E) + 1):
        vals += [2.0**e * (1 + k / 2**M) for k in range(2**M)]
    return np.array(vals, dtype=np.float64)
