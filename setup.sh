#!/bin/sh
# Offline setup: nothing to build (pure Python).  Recreate the git-ignored _version.py if a
# fresh restore dropped it, make sure hypothesis is importable in /venv, and check that
# unit_scaling is importable from the repository working tree.
set -e
REPO="${VERIF_REPO:-/repo}"
if [ ! -f "$REPO/unit_scaling/_version.py" ]; then
  cat > "$REPO/unit_scaling/_version.py" <<'V'
__version__ = version = "0.0.0+verif"
__version_tuple__ = version_tuple = (0, 0, 0, "verif")
__commit_id__ = commit_id = None
V
  echo "setup: recreated $REPO/unit_scaling/_version.py"
fi
/venv/bin/python -c "import hypothesis" 2>/dev/null || \
  /venv/bin/pip install -q --no-index --find-links /opt/veriftools/wheels hypothesis
mkdir -p /verif/evidence /verif/replays
cd /verif
PYTHONHASHSEED=0 /venv/bin/python - <<'P'
from simkit import core
core.bootstrap(need_dynamo=True)
import torch, unit_scaling
print("setup: torch", torch.__version__, "unit_scaling from", unit_scaling.__file__)
P
